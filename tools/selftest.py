#!/usr/bin/env python3
"""Must-fail self-test: apply each mutant patch to a scratch worktree of /repo, run the property's quick
check against it, expect a VIOLATION (exit 1). Scratch worktrees live outside /repo and /verif and are removed.

usage: selftest.py [--dir selftest/mutants|seeded] [name-substring ...]
       selftest.py --benign [name-substring ...]   must-pass corpus (selftest/benign): behaviour-preserving edits
                                                   on which the property's check has to stay silent (exit 0)
"""
import json, os, subprocess, sys, tempfile, shutil, time

VERIF = os.path.dirname(os.path.dirname(os.path.abspath(__file__)))
REPO = os.environ.get("GOCV_REPO_BASE", "/repo")

def run(cmd, **kw):
    return subprocess.run(cmd, stdout=subprocess.PIPE, stderr=subprocess.STDOUT, text=True, **kw)

def main():
    args = sys.argv[1:]
    benign = False
    if args and args[0] == "--benign":
        benign = True; args = ["--dir", "selftest/benign"] + args[1:]
    dirs = []
    while args and args[0] == "--dir":
        dirs.append(args[1]); args = args[2:]
    if not dirs:
        dirs = ["selftest/mutants", "seeded"]
    names = []
    for d in dirs:
        full = os.path.join(VERIF, d)
        if not os.path.isdir(full):
            continue
        for n in sorted(os.listdir(full)):
            if os.path.exists(os.path.join(full, n, "patch.diff")) and (not args or any(a in n for a in args)):
                names.append(os.path.join(full, n))
    bad = 0
    for m in names:
        meta = json.load(open(os.path.join(m, "meta.json")))
        props = meta.get("properties") or [meta["property"]]
        base = tempfile.mkdtemp(prefix="gocv-selftest-", dir="/var/tmp")
        wt = os.path.join(base, "wt")
        out = os.path.join(base, "out")
        os.makedirs(out)
        try:
            r = run(["git", "-C", REPO, "worktree", "add", "--detach", wt, "HEAD"])
            if r.returncode != 0:
                print("SELFTEST-ERROR worktree:", r.stdout); bad += 1; continue
            # carry uncommitted contract files of the working tree into the scratch copy
            r = run(["git", "-C", wt, "apply", os.path.join(m, "patch.diff")])
            if r.returncode != 0:
                print("SELFTEST-ERROR %s: patch does not apply: %s" % (os.path.basename(m), r.stdout)); bad += 1; continue
            caught = []
            if benign:
                alarms = []
                for p in props:
                    env = dict(os.environ, GOCV_REPO=wt, GOCV_OUT=out, GOFLAGS="-mod=mod", GOPROXY="off")
                    r = run([os.environ.get("GOCV_BIN", os.path.join(VERIF, "bin", "gocv")), "check", p], env=env, cwd=VERIF)
                    viol = [l for l in r.stdout.splitlines() if l.startswith("VIOLATION")]
                    if r.returncode != 0 or viol:
                        alarms.append("%s exit %d: %s" % (p, r.returncode, (viol or r.stdout.splitlines()[-1:])[0][:220]))
                if alarms:
                    print("FALSE-ALARM %s: %s" % (os.path.basename(m), "; ".join(alarms))); bad += 1
                else:
                    print("SILENT  %s: %s" % (os.path.basename(m), ", ".join(props)))
                continue
            for p in props:
                env = dict(os.environ, GOCV_REPO=wt, GOCV_OUT=out, GOFLAGS="-mod=mod", GOPROXY="off")
                t0 = time.time()
                r = run([os.environ.get("GOCV_BIN", os.path.join(VERIF, "bin", "gocv")), "check", p], env=env, cwd=VERIF)
                viol = [l for l in r.stdout.splitlines() if l.startswith("VIOLATION")]
                exp = meta.get("expect_obligation", "")
                hit = [l for l in viol if exp in l]
                if r.returncode == 1 and viol and (not exp or hit):
                    caught.append("%s (%d violation lines, %.0fs): %s" % (p, len(viol), time.time() - t0, (hit or viol)[0][:200]))
                elif r.returncode == 1 and viol:
                    caught.append("%s caught by another obligation than expected (%s): %s" % (p, exp, viol[0][:200]))
                else:
                    print("   %s on %s: exit %d, %d violation lines; tail: %s" % (os.path.basename(m), p, r.returncode, len(viol), " | ".join(r.stdout.splitlines()[-3:])))
            if caught:
                print("CAUGHT  %s: %s" % (os.path.basename(m), "; ".join(caught)))
            else:
                print("MISSED  %s (%s)" % (os.path.basename(m), meta.get("what", "")))
                bad += 1
        finally:
            run(["git", "-C", REPO, "worktree", "remove", "--force", wt])
            shutil.rmtree(base, ignore_errors=True)
            run(["git", "-C", REPO, "worktree", "prune"])
    print("selftest: %d %s, %d %s" % (len(names), "benign edits" if benign else "mutants", bad, "false alarms" if benign else "missed"))
    return 1 if bad else 0

if __name__ == "__main__":
    sys.exit(main())
