#!/usr/bin/env python3
"""mkmutant.py <name> <property> <file-relative-to-repo> <old> <new> [what]: record a one-edit mutant as a patch."""
import sys, os, subprocess, json, tempfile, shutil
name, prop, rel, old, new = sys.argv[1:6]
what = sys.argv[6] if len(sys.argv) > 6 else "%s: %r -> %r" % (rel, old, new)
V = os.path.dirname(os.path.dirname(os.path.abspath(__file__)))
src = open(os.path.join("/repo", rel)).read()
if src.count(old) != 1:
    sys.exit("pattern occurs %d times in %s" % (src.count(old), rel))
d = tempfile.mkdtemp(dir="/var/tmp")
try:
    a = os.path.join(d, "a", rel); b = os.path.join(d, "b", rel)
    os.makedirs(os.path.dirname(a)); os.makedirs(os.path.dirname(b))
    open(a, "w").write(src); open(b, "w").write(src.replace(old, new))
    p = subprocess.run(["diff", "-u", "a/" + rel, "b/" + rel], cwd=d, stdout=subprocess.PIPE, text=True).stdout
finally:
    shutil.rmtree(d)
out = os.path.join(V, "selftest", os.environ.get("MUT_KIND", "mutants"), name)
os.makedirs(out, exist_ok=True)
open(os.path.join(out, "patch.diff"), "w").write(p)
json.dump({"property": prop, "what": what}, open(os.path.join(out, "meta.json"), "w"))
print("wrote", out)
