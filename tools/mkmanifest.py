#!/usr/bin/env python3
"""Generate /verif/MANIFEST.json from props.json (claimed properties) and tools/manifest_meta.json
(level texts, not-applicable reasons). Keeps the manifest valid at all times."""
import json, os, subprocess, sys

V = os.path.dirname(os.path.dirname(os.path.abspath(__file__)))
props = json.load(open(os.path.join(V, "props.json")))
meta = json.load(open(os.path.join(V, "tools", "manifest_meta.json")))
all_ids = [json.loads(l)["id"] for l in open(os.path.join(V, "properties.jsonl"))]

def hook_commits():
    try:
        out = subprocess.run(["git", "-C", "/repo", "log", "--format=%h %s"], stdout=subprocess.PIPE, text=True).stdout
        return [l.split()[0] for l in out.splitlines() if l.split(" ", 1)[1].startswith("verif:")]
    except Exception:
        return []

claimed = [p["id"] for p in props]
checks = []
for p in props:
    m = meta["claimed"].get(p["id"], {})
    nd = p.get("clauses_not_decided", [])
    checks.append({
        "property_id": p["id"],
        "quick_cmd": "./bin/gocv check %s --tier quick" % p["id"],
        "thorough_cmd": "./bin/gocv check %s --tier thorough" % p["id"],
        "evidence_file": "/verif/evidence/%s.json" % p["id"],
        "replay_cmd_template": "./bin/gocv replay {path}",
        "engine": "gocv",
        "level_claimed": {
            "category": "proof",
            "text": m.get("text", p.get("notes", "")),
            "design_ref": "DESIGN.md section 4, %s" % p["id"],
        },
        "level_note": (m.get("note", "") + " Clauses decided: " + "; ".join(p.get("clauses_decided", [])) + ". Clauses NOT decided: " + ("; ".join(nd) if nd else "none") + ". Trusted base: go/packages+go/ssa, gocv's SSA semantics, z3/cvc5, amd64, assumed standard-library contracts listed in the evidence.").strip(),
        "technique": m.get("technique", "contracts (requires/ensures/invariants/frames as //@ comments under build tag verif) + weakest-precondition style VC generation over go/ssa of the real code + z3/cvc5; sat models replayed on the real code"),
    })

na = []
for i in all_ids:
    if i not in claimed:
        na.append({"property_id": i, "reason": meta["not_applicable"].get(i, "not claimed at this commit: the contracts and checks for it are not built yet (see DESIGN.md section 4)")})

manifest = {
    "version": 1,
    "setup_cmd": "cd /verif/engine && GOFLAGS=-mod=mod GOPROXY=off go build -o /verif/bin/gocv .",
    "hooks": {
        "guard": "verif",
        "enable": "go build -tags verif ./...  (add-only files zz_verif_*.go: comment-only contract files, lemma functions and model entry points that exist only under the tag; gocv loads /repo with -tags=verif)",
        "baseline_off_cmd": "cd /repo && GOFLAGS=-mod=mod GOPROXY=off go test -vet=off -count=1 -timeout 25m ./...",
        "source_commits": hook_commits(),
        "add_only": True,
    },
    "engines": [{"name": "gocv", "path": "/verif/engine", "serves_properties": claimed,
                 "kind_free_text": "self-written verification-condition generator over go/ssa (golang.org/x/tools v0.29.0) with contracts read from //@ comments; obligations discharged by a z3-new/z3/cvc5 portfolio; sat models replayed on the real code via go test -overlay"}],
    "checks": checks,
    "not_applicable": na,
    "notes": "Contract-based deductive verification of the real code. A VIOLATION line is printed only for (a) a solver model that reproduces on the real code, or (b) an obligation of a function that was fully discharged in the committed baseline and is no longer discharged (then the line ends with no-failing-input-found). See DESIGN.md.",
}
json.dump(manifest, open(os.path.join(V, "MANIFEST.json"), "w"), indent=1)
print("MANIFEST.json: %d checks, %d not applicable" % (len(checks), len(na)))
