#!/usr/bin/env python3
"""confirm_seed.py <agent-out-dir> <property> <seed-name> : confirm a seeded change independently in a scratch
worktree of /repo (applies, full suite passes with it, demo fails with it and passes without it), then
store it under /verif/seeded/<seed-name>/."""
import json, os, re, shutil, subprocess, sys, tempfile, time
src, prop, name = sys.argv[1:4]
V = os.path.dirname(os.path.dirname(os.path.abspath(__file__)))
ENV = dict(os.environ, GOFLAGS="-mod=mod", GOPROXY="off")
def run(cmd, cwd=None, timeout=1500):
    return subprocess.run(cmd, cwd=cwd, env=ENV, stdout=subprocess.PIPE, stderr=subprocess.STDOUT, text=True, timeout=timeout)
demo = open(os.path.join(src, "demo_test.go")).read()
m = re.search(r"place in:\s*(\S+)", demo.splitlines()[0])
pkgdir = m.group(1).rstrip("/") if m else "ttlv"
base = tempfile.mkdtemp(prefix="gocv-seed-", dir="/var/tmp")
wt = os.path.join(base, "wt")
ran = []
ok = True
try:
    r = run(["git", "-C", "/repo", "worktree", "add", "--detach", wt, "HEAD"]); assert r.returncode == 0, r.stdout
    r = run(["git", "-C", wt, "apply", os.path.join(src, "patch.diff")])
    if r.returncode != 0:
        print("patch does not apply:", r.stdout); sys.exit(1)
    ran.append("git apply patch.diff (scratch worktree of /repo HEAD)")
    r = run(["go", "build", "./..."], cwd=wt)
    if r.returncode != 0:
        print("does not build:", r.stdout[-2000:]); sys.exit(1)
    t0 = time.time()
    r = run(["go", "test", "-vet=off", "-count=1", "-timeout", "25m", "./..."], cwd=wt)
    if r.returncode != 0 and r.stdout.count("--- FAIL") and all("TestPrivateKey_RSA" in l for l in r.stdout.splitlines() if l.startswith("--- FAIL") or l.strip().startswith("--- FAIL")):
        # upstream flake (random RSA key whose CRT values have a leading zero byte, about 2% of runs): run again
        r = run(["go", "test", "-vet=off", "-count=1", "./..."], cwd=wt) if "cwd" in run.__code__.co_varnames else r
    ran.append("go test -vet=off -count=1 ./...  with the change: exit %d (%.0fs)" % (r.returncode, time.time() - t0))
    if r.returncode != 0:
        print("existing suite FAILS with the change:\n", r.stdout[-3000:]); ok = False
    dst = os.path.join(wt, pkgdir, "zz_seed_demo_test.go")
    shutil.copy(os.path.join(src, "demo_test.go"), dst)
    r1 = run(["go", "test", "-vet=off", "-count=1", "-timeout", "120s", "./" + pkgdir + "/"], cwd=wt)
    ran.append("demo with the change: exit %d" % r1.returncode)
    os.remove(dst)
    run(["git", "-C", wt, "checkout", "--", "."])
    shutil.copy(os.path.join(src, "demo_test.go"), dst)
    r2 = run(["go", "test", "-vet=off", "-count=1", "-timeout", "120s", "./" + pkgdir + "/"], cwd=wt)
    ran.append("demo without the change: exit %d" % r2.returncode)
    if r1.returncode == 0:
        print("demo does NOT fail with the change"); ok = False
    if r2.returncode != 0:
        print("demo does NOT pass without the change:\n", r2.stdout[-2000:]); ok = False
finally:
    run(["git", "-C", "/repo", "worktree", "remove", "--force", wt])
    shutil.rmtree(base, ignore_errors=True)
    run(["git", "-C", "/repo", "worktree", "prune"])
print("\n".join(ran))
if not ok:
    print("NOT CONFIRMED"); sys.exit(1)
out = os.path.join(V, "seeded", name)
os.makedirs(out, exist_ok=True)
shutil.copy(os.path.join(src, "patch.diff"), os.path.join(out, "patch.diff"))
shutil.copy(os.path.join(src, "demo_test.go"), os.path.join(out, "demo_test.go"))
notes = open(os.path.join(src, "notes.txt")).read() if os.path.exists(os.path.join(src, "notes.txt")) else ""
json.dump({"property": prop, "what": notes.strip().split("\n\n")[0][:600], "needs_to_manifest": "see notes", "notes": notes, "demo_package_dir": pkgdir, "confirmed_by": ran}, open(os.path.join(out, "meta.json"), "w"), indent=1)
print("CONFIRMED ->", out)
