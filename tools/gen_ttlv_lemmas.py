#!/usr/bin/env python3
"""Writes /repo/ttlv/zz_verif_lemmas.go (item-level round-trip and fixed-point lemmas, one pair per TTLV type).
The lemma functions are ordinary Go over the real writer and reader; this script only saves typing."""
import sys
types = [
 # name, gotype, write args, read args, eq expr (x vs v), extra requires, type code, wire length expr
 ("Integer","int32","tag, v","tag","x == v","","2","4"),
 ("LongInteger","int64","tag, v","tag","x == v","","3","8"),
 ("Enum","uint32","0, tag, v","0, tag","x == v","","5","4"),
 ("Bool","bool","tag, v","tag","x == v","","6","8"),
 ("Bitmask","int32","0, tag, v","0, tag","x == v","","2","4"),
 ("DateTime","time.Time","tag, v","tag","unix(x) == unix(v)","","9","8"),
 ("Interval","time.Duration","tag, v","tag","x == v"," && 0 <= v && int64(v)%1000000000 == 0 && int64(v)/1000000000 < 1<<32","10","4"),
 ("TextString","string","tag, v","tag","len(x) == len(v) && bytes_eq(x, wb[8:8+len(v)]) && bytes_eq(wb[8:8+len(v)], v)"," && len(v) < 1<<31","7","len(v)"),
 ("ByteString","[]byte","tag, v","tag","len(x) == len(v) && bytes_eq(x, wb[8:8+len(v)]) && bytes_eq(wb[8:8+len(v)], v)"," && len(v) < 1<<31","8","len(v)"),
]
zero={"int32":"0","int64":"0","uint32":"0","bool":"false","time.Time":"time.Time{}","time.Duration":"0","string":'""',"[]byte":"nil"}
out=['''//go:build verif

package ttlv

import (
	"math/big"
	"time"
)

var _ = big.NewInt

// Lemma functions for the gocv verifier: ordinary Go code over the real writer and reader, verified
// modularly against their contracts (the callees' bodies are not looked at). Compiled only with -tags verif.
//
// lemmaRT<T>  (C01, item level): writing a value of TTLV type T followed by arbitrary well-formed bytes and
//             reading an item of type T back yields the value, and the reader is left exactly at the bytes
//             that followed.
// lemmaWRW<T> (C18, item level): for EVERY accepted input item of type T (not only those a writer of this
//             library emits: arbitrary padding bytes, any trailing items), re-encoding the decoded value
//             gives an item that decodes again to the same value, and a second re-encoding is byte-identical
//             to the first.

// Cut lemmas (assert-then-assume): the pre-condition is proved at the call site and handed back as a fact,
// which splits the variable-length proofs into steps the solvers finish.
//
//@ lemma cutItem
//@   requires len(b) >= 8+padded(n) && tagOf(b) == tag && b[3] == ty && lenOf(b) == n
//@   ensures len(b) >= 8+padded(n) && tagOf(b) == tag && b[3] == ty && lenOf(b) == n
//@   pure

func cutItem(b []byte, tag int, ty byte, n int) {}

//@ lemma cutBytes
//@   requires len(b) >= 8+len(v) && bytes_eq(b[8:8+len(v)], v)
//@   ensures len(b) >= 8+len(v) && bytes_eq(b[8:8+len(v)], v)
//@   pure

func cutBytes(b []byte, v []byte) {}

//@ lemma cutText
//@   requires len(b) >= 8+len(v) && bytes_eq(b[8:8+len(v)], v)
//@   ensures len(b) >= 8+len(v) && bytes_eq(b[8:8+len(v)], v)
//@   pure

func cutText(b []byte, v string) {}

//@ lemma cutTail
//@   requires 0 <= o && o <= len(b) && len(b)-o == len(rest) && bytes_eq(b[o:], rest) && hdOK(rest)
//@   ensures hdOK(b[o:]) && bytes_eq(b[o:], rest)
//@   pure

func cutTail(b []byte, o int, rest []byte) {}

// Arithmetic fact used by the Interval lemmas (decided by cvc5 through its integer translation; the
// bit-blasting solvers do not finish on 64-bit division by 10^9).
//
//@ lemma lemmaWholeSeconds
//@   requires 0 <= v && v%1000000000 == 0 && v/1000000000 < 1<<32
//@   ensures int64(uint32(v/1000000000))*1000000000 == v
//@   pure

func lemmaWholeSeconds(v int64) {}
''']
for (n,gt,wa,ra,eq,req,ty,ln) in types:
    pre = "\tlemmaWholeSeconds(int64(v))\n" if n=="Interval" else ""
    cutv = {"TextString": "\tcutText(w.buf, v)\n", "ByteString": "\tcutBytes(w.buf, v)\n"}.get(n, "")
    out.append(f'''// The reader is left exactly at the bytes that followed: `out` is the suffix wb[o:] of the written buffer
// (same array, offset and length) and that suffix holds the bytes of `rest`.
//
//@ lemma lemmaRT{n}
//@   requires 0 <= tag && tag < 1<<24 && hdOK(rest){req}
//@   ensures err == nil && {eq} && len(out) == len(rest)
//@   ensures 0 <= o && o <= len(wb) && arr(out) == arr(wb) && off(out) == off(wb)+o && len(out) == len(wb)-o && bytes_eq(wb[o:], rest)

func lemmaRT{n}(tag int, v {gt}, rest []byte) (x {gt}, err error, out, wb []byte, o int) {{
{pre}	w := &ttlvWriter{{}}
	w.{n}({wa})
	o = len(w.buf)
	w.buf = append(w.buf, rest...)
	cutItem(w.buf, tag, {ty}, {ln})
{cutv}	cutTail(w.buf, o, rest)
	dec, err := newTTLVReader(w.buf)
	if err != nil {{
		return {zero[gt]}, err, nil, w.buf, o
	}}
	x, err = dec.{n}({ra})
	return x, err, dec.buf, w.buf, o
}}
''')
    if eq=="x == v": eq2="v2 == v1"
    elif eq.startswith("unix"): eq2="unix(v2) == unix(v1)"
    else: eq2="bytes_eq(v2, v1)"
    if n in ("TextString", "ByteString"):
        out[-1] = out[-1].replace("// The reader is left exactly", "// The value read is byte for byte the value extent wb[8:8+len(v)] of the written buffer, which holds the\n// bytes of v (stated as two equalities; together: x equals v).\n// The reader is left exactly")
    out.append(f'''//@ lemma lemmaWRW{n}
//@   requires 0 <= tag && tag < 1<<24 && hdOK(in)
//@   ensures err1 == nil ==> err2 == nil && {eq2} && bytes_eq(w1, w2)
//@   cover err1 == nil

func lemmaWRW{n}(tag int, in []byte) (v1, v2 {gt}, err1, err2 error, w1, w2 []byte) {{
	dec, err := newTTLVReader(in)
	if err != nil {{
		return {zero[gt]}, {zero[gt]}, err, nil, nil, nil
	}}
	v1, err1 = dec.{n}({ra})
	if err1 != nil {{
		return {zero[gt]}, {zero[gt]}, err1, nil, nil, nil
	}}
	a := &ttlvWriter{{}}
	a.{n}({wa.replace("v","v1")})
	dec2, err := newTTLVReader(a.buf)
	if err != nil {{
		return v1, {zero[gt]}, nil, err, a.buf, nil
	}}
	v2, err2 = dec2.{n}({ra})
	if err2 != nil {{
		return v1, {zero[gt]}, nil, err2, a.buf, nil
	}}
	b := &ttlvWriter{{}}
	b.{n}({wa.replace("v","v2")})
	return v1, v2, nil, nil, a.buf, b.buf
}}
''')

out.append('''// Nesting (C01, item level): a structure holding one item round-trips through the real Struct writer
// (length patched in place after the children are written) and the real Struct reader (nested reader over
// exactly the declared extent). The bodies of the two Struct methods are used here instead of their
// contracts, because the callbacks are known.
//
//@ lemma lemmaRTStructInteger
//@   requires 0 <= tag && tag < 1<<24 && 0 <= tag2 && tag2 < 1<<24 && hdOK(rest)
//@   usebody (*ttlvWriter).Struct
//@   usebody (*ttlvReader).Struct
//@   ensures err == nil && x == v && len(out) == len(rest) && bytes_eq(out, rest)

func lemmaRTStructInteger(tag, tag2 int, v int32, rest []byte) (x int32, err error, out []byte) {
	w := &ttlvWriter{}
	w.Struct(tag, func(w writer) { w.Integer(tag2, v) })
	o := len(w.buf)
	w.buf = append(w.buf, rest...)
	cutItem(w.buf, tag, 1, 16)
	cutTail(w.buf, o, rest)
	dec, err := newTTLVReader(w.buf)
	if err != nil {
		return 0, err, nil
	}
	err = dec.Struct(tag, func(r reader) error {
		var e error
		x, e = r.Integer(tag2)
		return e
	})
	return x, err, dec.buf
}
''')

out.append('''// Reuse (C20, history independence of the binary writer): whatever a writer has been used for before,
// after Clear it produces, for the same call, exactly the bytes a fresh writer produces.
''')
for (n,gt,wa,ra,eq,req,ty,ln) in types:
    if n in ("Interval", "TextString", "ByteString"):
        continue  # variable-length / non-linear cases are not discharged within budget; not claimed
    out.append(f'''//@ lemma lemmaReuse{n}
//@   requires w != nil{req.replace(" && 0 <= v && int64(v)%1000000000 == 0 && int64(v)/1000000000 < 1<<32","")}
//@   ensures bytes_eq(a, b)

func lemmaReuse{n}(w *ttlvWriter, tag int, v {gt}) (a, b []byte) {{
	w.Clear()
	w.{n}({wa})
	f := &ttlvWriter{{}}
	f.{n}({wa})
	return w.buf, f.buf
}}
''')

out.append('''// Generic containers (C01/C18): a ttlv.Value holding a scalar is read back, by the generic decoder that
// dispatches on the TTLV type found on the wire, as a ttlv.Value of the same tag, Go type and value
// (element-level model of the writer/reader interfaces, see zz_verif_model.go).
''')
for (n, gt, cmpf) in [("Integer","int32","=="),("LongInteger","int64","=="),("Bool","bool","=="),("Enum","Enum","=="),("TextString","string","=="),("Interval","time.Duration","=="),("DateTime","time.Time","unix"),("ByteString","[]byte","slice"),("BigInteger","*big.Int","==")]:
    if cmpf == "==":
        eq = f"dyn(out.Value, {gt}) == dyn(v.Value, {gt})"
    elif cmpf == "unix":
        eq = f"unix(dyn(out.Value, {gt})) == unix(dyn(v.Value, {gt}))"
    else:
        eq = f"len(dyn(out.Value, {gt})) == len(dyn(v.Value, {gt})) && arr(dyn(out.Value, {gt})) == arr(dyn(v.Value, {gt}))"
    out.append(f'''//@ lemma lemmaMirrorValue{n}
//@   requires out != nil && typeis(v.Value, {gt}) && 0 < tag && tag < 1<<24 && out.Tag == 0 && out.Value == nil && !tapeDropped
//@   ensures err == nil && end && !tapeDropped
//@   ensures out.Tag == tag && typeis(out.Value, {gt}) && {eq}

func lemmaMirrorValue{n}(v Value, tag int, out *Value) (err error, end bool) {{
	e := VerifModelEncoder()
	v.TagEncodeTTLV(&e, tag)
	d := VerifModelDecoder(&e)
	err = out.DecodeTTLV(&d)
	return err, VerifTapeEnd(&d)
}}
''')
open(sys.argv[1] if len(sys.argv)>1 else '/repo/ttlv/zz_verif_lemmas.go','w').write('\n'.join(out))
