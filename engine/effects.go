package main

// Frame conditions over package-level state (property C20, history-independence clauses).
//
// "The protocol version, the tags and the cached per-type plans used for one message never influence the
// result for another" needs, besides the per-object contracts (Encoder.Clear, the writers' exact-bytes
// post-conditions), a frame over the process-wide state: no function reachable from the codec entry points
// assigns a package-level variable, a registry map, or memory reached through one — with the pinned
// exceptions of the two lazily filled plan caches. The frame is checked here over the SSA of the whole
// module, transitively through the call graph (static calls, closures, and class-hierarchy resolution of
// interface calls inside the module), with a conservative may-alias rule: every value loaded from a
// package-level variable, and everything reached from it through fields, elements, slices, phis, type
// assertions and calls, is "global memory".
//
// One obligation per (function reachable from an entry point): "writes no package-level state", plus one per
// registry: "assigned only by its Register* function, which is called only from init".

import (
	"fmt"
	"go/token"
	"path/filepath"
	"go/types"
	"sort"
	"strings"

	"golang.org/x/tools/go/ssa"
)

type effWrite struct {
	global string
	how    string
	pos    string
}

type effAnalysis struct {
	prog    *ssa.Program
	mod     string
	funcs   []*ssa.Function
	callers map[*ssa.Function][]*ssa.Function
	// taint[fn][value] = name of the global the value may point into
	taint map[*ssa.Function]map[ssa.Value]string
	// tainted parameters / free variables discovered interprocedurally
	writes map[*ssa.Function][]effWrite
	byIface map[string][]*ssa.Function // method name -> module methods (CHA)
}

func (a *effAnalysis) inModule(fn *ssa.Function) bool {
	p := fn.Pkg
	if p == nil && fn.Origin() != nil {
		p = fn.Origin().Pkg
	}
	if p == nil {
		if fn.Parent() != nil {
			return a.inModule(fn.Parent())
		}
		return false
	}
	return strings.HasPrefix(p.Pkg.Path(), a.mod)
}

func allFunctions(prog *ssa.Program, mod string) []*ssa.Function {
	seen := map[*ssa.Function]bool{}
	var out []*ssa.Function
	var add func(fn *ssa.Function)
	add = func(fn *ssa.Function) {
		if fn == nil || seen[fn] {
			return
		}
		seen[fn] = true
		out = append(out, fn)
		for _, an := range fn.AnonFuncs {
			add(an)
		}
	}
	for _, pkg := range prog.AllPackages() {
		if !strings.HasPrefix(pkg.Pkg.Path(), mod) {
			continue
		}
		for _, m := range pkg.Members {
			switch m := m.(type) {
			case *ssa.Function:
				add(m)
			case *ssa.Type:
				for _, t := range []types.Type{m.Type(), types.NewPointer(m.Type())} {
					ms := prog.MethodSets.MethodSet(t)
					for i := 0; i < ms.Len(); i++ {
						add(prog.MethodValue(ms.At(i)))
					}
				}
			}
		}
	}
	// instantiations of generic functions reached through calls
	for i := 0; i < len(out); i++ {
		for _, b := range out[i].Blocks {
			for _, ins := range b.Instrs {
				if c, ok := ins.(ssa.CallInstruction); ok {
					if f := c.Common().StaticCallee(); f != nil {
						if p := f.Pkg; p != nil && strings.HasPrefix(p.Pkg.Path(), mod) {
							add(f)
						} else if o := f.Origin(); o != nil && o.Pkg != nil && strings.HasPrefix(o.Pkg.Pkg.Path(), mod) {
							add(f)
						}
					}
				}
			}
		}
	}
	sort.Slice(out, func(i, j int) bool { return out[i].String() < out[j].String() })
	return out
}

func globalName(g *ssa.Global) string {
	return g.Pkg.Pkg.Path() + "." + g.Name()
}

// rootGlobal: the package-level variable an address or value is derived from within fn ("" if none).
func (a *effAnalysis) rootGlobal(fn *ssa.Function, v ssa.Value, depth int) string {
	if depth > 40 {
		return ""
	}
	if t, ok := a.taint[fn][v]; ok {
		return t
	}
	switch x := v.(type) {
	case *ssa.Global:
		if strings.HasPrefix(x.Pkg.Pkg.Path(), a.mod) {
			return globalName(x)
		}
	case *ssa.FieldAddr:
		return a.rootGlobal(fn, x.X, depth+1)
	case *ssa.IndexAddr:
		return a.rootGlobal(fn, x.X, depth+1)
	case *ssa.Field:
		return a.rootGlobal(fn, x.X, depth+1)
	case *ssa.Index:
		return a.rootGlobal(fn, x.X, depth+1)
	case *ssa.Slice:
		return a.rootGlobal(fn, x.X, depth+1)
	case *ssa.UnOp:
		// a load: the loaded value may point into the same global structure when it is a reference type
		if x.Op.String() == "*" {
			if r := a.rootGlobal(fn, x.X, depth+1); r != "" && isRefType(x.Type()) {
				return r
			}
		}
	case *ssa.Lookup:
		if r := a.rootGlobal(fn, x.X, depth+1); r != "" && isRefType(x.Type()) {
			return r
		}
	case *ssa.Extract:
		return a.rootGlobal(fn, x.Tuple, depth+1)
	case *ssa.ChangeType:
		return a.rootGlobal(fn, x.X, depth+1)
	case *ssa.ChangeInterface:
		return a.rootGlobal(fn, x.X, depth+1)
	case *ssa.MakeInterface:
		return a.rootGlobal(fn, x.X, depth+1)
	case *ssa.TypeAssert:
		return a.rootGlobal(fn, x.X, depth+1)
	case *ssa.Convert:
		return a.rootGlobal(fn, x.X, depth+1)
	case *ssa.Phi:
		for _, e := range x.Edges {
			if e == v {
				continue
			}
			if r := a.rootGlobal(fn, e, depth+8); r != "" {
				return r
			}
		}
	}
	return ""
}

func isRefType(t types.Type) bool {
	switch u := t.Underlying().(type) {
	case *types.Pointer, *types.Map, *types.Slice, *types.Chan, *types.Interface, *types.Signature:
		return true
	case *types.Tuple:
		for i := 0; i < u.Len(); i++ {
			if isRefType(u.At(i).Type()) {
				return true
			}
		}
	case *types.Struct:
		for i := 0; i < u.NumFields(); i++ {
			if isRefType(u.Field(i).Type()) {
				return true
			}
		}
	}
	return false
}

func (a *effAnalysis) callees(fn *ssa.Function, c ssa.CallInstruction) []*ssa.Function {
	cc := c.Common()
	if f := cc.StaticCallee(); f != nil {
		return []*ssa.Function{f}
	}
	if cc.IsInvoke() {
		// class-hierarchy resolution inside the module
		var out []*ssa.Function
		for _, m := range a.byIface[cc.Method.Name()] {
			recv := m.Signature.Recv()
			if recv != nil && types.Implements(recv.Type(), cc.Value.Type().Underlying().(*types.Interface)) {
				out = append(out, m)
			}
		}
		return out
	}
	// closure values created in the same function
	if mc, ok := cc.Value.(*ssa.MakeClosure); ok {
		if f, ok := mc.Fn.(*ssa.Function); ok {
			return []*ssa.Function{f}
		}
	}
	return nil
}

func newEffAnalysis(prog *ssa.Program, mod string) *effAnalysis {
	a := &effAnalysis{prog: prog, mod: mod, taint: map[*ssa.Function]map[ssa.Value]string{}, writes: map[*ssa.Function][]effWrite{}, byIface: map[string][]*ssa.Function{}, callers: map[*ssa.Function][]*ssa.Function{}}
	a.funcs = allFunctions(prog, mod)
	for _, f := range a.funcs {
		if f.Signature.Recv() != nil {
			a.byIface[f.Name()] = append(a.byIface[f.Name()], f)
		}
		a.taint[f] = map[ssa.Value]string{}
	}
	// interprocedural taint of parameters and free variables, to a fixed point
	for changed, round := true, 0; changed && round < 20; round++ {
		changed = false
		for _, f := range a.funcs {
			for _, b := range f.Blocks {
				for _, ins := range b.Instrs {
					switch x := ins.(type) {
					case ssa.CallInstruction:
						cc := x.Common()
						args := cc.Args
						for _, callee := range a.callees(f, x) {
							if callee == nil || len(callee.Blocks) == 0 || a.taint[callee] == nil {
								continue
							}
							params := callee.Params
							off := 0
							if cc.IsInvoke() {
								// receiver is cc.Value
								if r := a.rootGlobal(f, cc.Value, 0); r != "" && len(params) > 0 {
									if _, ok := a.taint[callee][params[0]]; !ok {
										a.taint[callee][params[0]] = r
										changed = true
									}
								}
								off = 1
							}
							for i, arg := range args {
								if i+off >= len(params) {
									break
								}
								if r := a.rootGlobal(f, arg, 0); r != "" && isRefType(arg.Type()) {
									if _, ok := a.taint[callee][params[i+off]]; !ok {
										a.taint[callee][params[i+off]] = r
										changed = true
									}
								}
							}
						}
					case *ssa.MakeClosure:
						if cf, ok := x.Fn.(*ssa.Function); ok && a.taint[cf] != nil {
							for i, bnd := range x.Bindings {
								if r := a.rootGlobal(f, bnd, 0); r != "" && i < len(cf.FreeVars) {
									if _, ok := a.taint[cf][cf.FreeVars[i]]; !ok {
										a.taint[cf][cf.FreeVars[i]] = r
										changed = true
									}
								}
							}
						}
					}
				}
			}
		}
	}
	// direct writes
	pos := func(f *ssa.Function, ins ssa.Instruction) string {
		p := prog.Fset.Position(ins.Pos())
		if !p.IsValid() {
			p = prog.Fset.Position(f.Pos())
		}
		fn := p.Filename
		if i := strings.Index(fn, "/repo/"); i >= 0 {
			fn = fn[i+6:]
		} else if d := repoDir(); strings.HasPrefix(fn, d) {
			fn = strings.TrimPrefix(strings.TrimPrefix(fn, d), "/")
		}
		return fmt.Sprintf("%s:%d", fn, p.Line)
	}
	for _, f := range a.funcs {
		for _, b := range f.Blocks {
			for _, ins := range b.Instrs {
				switch x := ins.(type) {
				case *ssa.Store:
					if r := a.rootGlobal(f, x.Addr, 0); r != "" {
						a.writes[f] = append(a.writes[f], effWrite{global: r, how: "store", pos: pos(f, ins)})
					}
				case *ssa.MapUpdate:
					if r := a.rootGlobal(f, x.Map, 0); r != "" {
						a.writes[f] = append(a.writes[f], effWrite{global: r, how: "map update", pos: pos(f, ins)})
					}
				case ssa.CallInstruction:
					cc := x.Common()
					if callee := cc.StaticCallee(); callee != nil {
						name := callee.String()
						switch {
						case strings.HasPrefix(name, "(*sync.Map).") && (strings.HasSuffix(name, ".Store") || strings.Contains(name, "LoadOrStore") || strings.Contains(name, "Delete") || strings.Contains(name, "Swap") || strings.HasSuffix(name, ".Clear")):
							if len(cc.Args) > 0 {
								if r := a.rootGlobal(f, cc.Args[0], 0); r != "" {
									a.writes[f] = append(a.writes[f], effWrite{global: r, how: "sync.Map write", pos: pos(f, ins)})
								}
							}
						case strings.HasPrefix(name, "(*sync.Pool)."):
							if len(cc.Args) > 0 {
								if r := a.rootGlobal(f, cc.Args[0], 0); r != "" {
									a.writes[f] = append(a.writes[f], effWrite{global: r, how: "sync.Pool " + callee.Name(), pos: pos(f, ins)})
								}
							}
						case strings.HasPrefix(name, "(*sync/atomic.") && (strings.Contains(name, "Store") || strings.Contains(name, "Add") || strings.Contains(name, "Swap")):
							if len(cc.Args) > 0 {
								if r := a.rootGlobal(f, cc.Args[0], 0); r != "" {
									a.writes[f] = append(a.writes[f], effWrite{global: r, how: "atomic write", pos: pos(f, ins)})
								}
							}
						case x.Common().Value.Name() == "append" || name == "copy":
						}
					}
					if bi, ok := cc.Value.(*ssa.Builtin); ok && bi.Name() == "copy" && len(cc.Args) > 0 {
						if r := a.rootGlobal(f, cc.Args[0], 0); r != "" {
							a.writes[f] = append(a.writes[f], effWrite{global: r, how: "copy into", pos: pos(f, ins)})
						}
					}
					if bi, ok := cc.Value.(*ssa.Builtin); ok && (bi.Name() == "delete" || bi.Name() == "clear") && len(cc.Args) > 0 {
						if r := a.rootGlobal(f, cc.Args[0], 0); r != "" {
							a.writes[f] = append(a.writes[f], effWrite{global: r, how: bi.Name(), pos: pos(f, ins)})
						}
					}
				}
			}
		}
	}
	return a
}

// reachable: functions reachable from the entry points through the module call graph.
func (a *effAnalysis) reachable(entries []*ssa.Function) map[*ssa.Function]*ssa.Function {
	from := map[*ssa.Function]*ssa.Function{}
	var work []*ssa.Function
	for _, e := range entries {
		if _, ok := from[e]; !ok {
			from[e] = nil
			work = append(work, e)
		}
	}
	for len(work) > 0 {
		f := work[0]
		work = work[1:]
		visit := func(g *ssa.Function) {
			if g == nil || !a.inModule(g) {
				return
			}
			if _, ok := from[g]; !ok {
				from[g] = f
				work = append(work, g)
			}
		}
		for _, an := range f.AnonFuncs {
			visit(an)
		}
		for _, b := range f.Blocks {
			for _, ins := range b.Instrs {
				if c, ok := ins.(ssa.CallInstruction); ok {
					for _, g := range a.callees(f, c) {
						visit(g)
					}
				}
				// function values taken (method values, references to package functions): may be called later
				for _, op := range ins.Operands(nil) {
					if op == nil || *op == nil {
						continue
					}
					if g, ok := (*op).(*ssa.Function); ok {
						visit(g)
					}
				}
			}
		}
	}
	return from
}

func relFuncName(f *ssa.Function) string { return funcName(f) }

func init() {
	extraCheckers["effects:C20"] = func(pc *PropConfig, l *Loaded, tier string, seed int, replayDir string) extraResult {
		mod := "github.com/ovh/kmip-go"
		a := newEffAnalysis(l.prog, mod)
		var obs []tableOb
		// entry points: the exported codec API of package ttlv and the hand-written codecs of the other packages
		var entries []*ssa.Function
		for _, f := range a.funcs {
			name := f.Name()
			pkgPath := ""
			if f.Pkg != nil {
				pkgPath = f.Pkg.Pkg.Path()
			}
			recv := f.Signature.Recv()
			switch {
			case pkgPath == mod+"/ttlv" && recv == nil && (strings.HasPrefix(name, "Marshal") || strings.HasPrefix(name, "Unmarshal") || strings.HasPrefix(name, "New") && (strings.HasSuffix(name, "Encoder") || strings.HasSuffix(name, "Decoder"))):
				entries = append(entries, f)
			case recv != nil && (strings.HasSuffix(typeKey(recv.Type()), "ttlv.Encoder") || strings.HasSuffix(typeKey(recv.Type()), "ttlv.Decoder")) && f.Object() != nil && f.Object().Exported():
				entries = append(entries, f)
			case name == "TagEncodeTTLV" || name == "TagDecodeTTLV" || name == "EncodeTTLV" || name == "DecodeTTLV":
				entries = append(entries, f)
			case pkgPath == mod+"/ttlv" && recv == nil && f.Object() != nil && f.Object().Exported() && (strings.HasPrefix(name, "Enum") || strings.HasPrefix(name, "Bitmask") || strings.HasPrefix(name, "Tag") || name == "AppendBitmaskString"):
				entries = append(entries, f)
			}
		}
		if len(entries) < 20 {
			return extraResult{errors: []string{fmt.Sprintf("effects:C20: only %d codec entry points found", len(entries))}}
		}
		reach := a.reachable(entries)
		// pinned exceptions: the two lazily filled plan caches (a stored plan is a function of the type alone:
		// assumed, reflection) — and nothing else
		allowed := map[string]map[string]bool{
			"ttlv.encodeFuncFor": {mod + "/ttlv.encodeFuncsCache": true},
			"ttlv.decodeFuncFor": {mod + "/ttlv.decodeFuncsCache": true},
		}
		var names []*ssa.Function
		for f := range reach {
			names = append(names, f)
		}
		sort.Slice(names, func(i, j int) bool { return names[i].String() < names[j].String() })
		chain := func(f *ssa.Function) string {
			var parts []string
			for g := f; g != nil && len(parts) < 8; g = reach[g] {
				parts = append(parts, relFuncName(g))
			}
			return strings.Join(parts, " <- ")
		}
		for _, f := range names {
			if strings.HasPrefix(f.Name(), "init") && f.Signature.Recv() == nil {
				continue
			}
			var bad []string
			for _, w := range a.writes[f] {
				if allowed[relFuncName(f)][w.global] {
					continue
				}
				bad = append(bad, fmt.Sprintf("%s of %s at %s", w.how, w.global, w.pos))
			}
			obs = append(obs, tableOb{name: "C20#gframe:" + relFuncName(f), ok: len(bad) == 0,
				what: fmt.Sprintf("%s (reachable from the codec entry points: %s) assigns package-level state: %s", relFuncName(f), chain(f), strings.Join(bad, "; "))})
		}
		// the pinned exceptions must still be what they were: one sync.Map store each
		for fn, gl := range allowed {
			found := false
			for _, f := range a.funcs {
				if relFuncName(f) == fn {
					found = true
					n := 0
					for _, w := range a.writes[f] {
						if gl[w.global] && w.how == "sync.Map write" {
							n++
						}
					}
					obs = append(obs, tableOb{name: "C20#cache:" + fn, ok: n == 1, what: fmt.Sprintf("%s is expected to fill its plan cache with exactly one sync.Map store (found %d)", fn, n)})
					// the plan is a function of the type alone only if the cache is keyed by the reflect.Type
					// itself: the key of every sync.Map access is the function's parameter, converted to any
					keyOK, accesses := true, 0
					for _, b := range f.Blocks {
						for _, ins := range b.Instrs {
							c, ok := ins.(ssa.CallInstruction)
							if !ok {
								continue
							}
							callee := c.Common().StaticCallee()
							if callee == nil || callee.Pkg == nil || callee.Pkg.Pkg.Path() != "sync" || callee.Signature.Recv() == nil || !strings.HasSuffix(callee.Signature.Recv().Type().String(), "sync.Map") {
								continue
							}
							args := c.Common().Args
							if len(args) < 2 {
								continue
							}
							accesses++
							var src ssa.Value
							switch k := args[1].(type) {
							case *ssa.ChangeInterface:
								src = k.X
							case *ssa.MakeInterface:
								src = k.X
							}
							if len(f.Params) == 0 || src != ssa.Value(f.Params[0]) {
								keyOK = false
							}
						}
					}
					obs = append(obs, tableOb{name: "C20#cache-key:" + fn, ok: keyOK && accesses >= 2, what: fmt.Sprintf("%s must key every access of its plan cache by its reflect.Type parameter itself (%d accesses seen); a derived key (a name, a kind) lets the plan of one type be used for another", fn, accesses)})
				}
			}
			if !found {
				obs = append(obs, tableOb{name: "C20#cache:" + fn, ok: false, what: fn + " not found (the plan cache frame exception is pinned to this function)"})
			}
		}
		// registries: assigned only by their Register* functions, and those are called only from init functions
		writersOf := map[string]map[string]bool{}
		for _, f := range a.funcs {
			for _, w := range a.writes[f] {
				if writersOf[w.global] == nil {
					writersOf[w.global] = map[string]bool{}
				}
				writersOf[w.global][relFuncName(f)] = true
			}
		}
		var gl []string
		for g := range writersOf {
			gl = append(gl, g)
		}
		sort.Strings(gl)
		callersOf := map[*ssa.Function][]*ssa.Function{}
		for _, f := range a.funcs {
			for _, b := range f.Blocks {
				for _, ins := range b.Instrs {
					if c, ok := ins.(ssa.CallInstruction); ok {
						if g := c.Common().StaticCallee(); g != nil {
							key := g
							if o := g.Origin(); o != nil {
								key = o
							}
							callersOf[key] = append(callersOf[key], f)
						}
					}
				}
			}
		}
		isInit := func(f *ssa.Function) bool {
			return f.Signature.Recv() == nil && (f.Name() == "init" || strings.HasPrefix(f.Name(), "init#")) || f.Parent() != nil && (f.Parent().Name() == "init" || strings.HasPrefix(f.Parent().Name(), "init#"))
		}
		for _, g := range gl {
			if !strings.HasPrefix(g, mod) || strings.Contains(g, "/kmiptest.") || strings.Contains(g, "/examples.") {
				continue
			}
			var ws []string
			okAll := true
			for w := range writersOf[g] {
				ws = append(ws, w)
			}
			sort.Strings(ws)
			for _, f := range a.funcs {
				if !writersOf[g][relFuncName(f)] {
					continue
				}
				if isInit(f) {
					continue
				}
				if _, inCodec := reach[f]; inCodec && !allowed[relFuncName(f)][g] {
					okAll = false
				}
				key := f
				if o := f.Origin(); o != nil {
					key = o
				}
				exported := f.Object() != nil && f.Object().Exported()
				if !exported && !allowed[relFuncName(f)][g] {
					// unexported writer: every caller must be an init function or another writer of the same state
					for _, c := range callersOf[key] {
						if !isInit(c) && !writersOf[g][relFuncName(c)] {
							okAll = false
						}
					}
				}
				// exported Register* functions: inside the module they are called from init functions only
				if exported {
					for _, c := range callersOf[key] {
						if !isInit(c) && !writersOf[g][relFuncName(c)] && a.inModule(c) {
							okAll = false
						}
					}
				}
			}
			obs = append(obs, tableOb{name: "C20#state:" + strings.TrimPrefix(g, mod), ok: okAll,
				what: fmt.Sprintf("package-level %s is assigned by %s; inside the module these may run only during package initialisation (or be the pinned plan caches)", g, strings.Join(ws, ", "))})
		}
		er := tableResult(pc, obs, replayDir, []string{
			"frame over package-level state: syntactic may-alias rule over go/ssa (values loaded from a package-level variable and everything reached from them); interface calls resolved by class hierarchy inside the module; calls into the standard library are assumed not to assign module state",
			"the two plan caches (encodeFuncsCache, decodeFuncsCache) are exempt: the stored plan is assumed to be a function of the reflect.Type alone (reflection is out of reach)",
			"user code may call the exported Register* functions at any time; the property is stated for a process whose registrations all happen during package initialisation",
		})
		// a frame violation names the assignment, not an input: the witness scenario of the property (run by
		// the check whenever something is violated) is what may reproduce it on the real code
		for i := range er.violations {
			er.violations[i] += " no-failing-input-found"
		}
		for i := range er.records {
			er.records[i].Kind = "gframe"
			er.records[i].Func = strings.TrimPrefix(er.records[i].Name, "C20#gframe:")
			er.records[i].Solver = "frame inference over go/ssa (no solver needed)"
		}
		return er
	}
}

// fieldframe:C13 — frame over one field of one type, for the whole module: the negotiated / enforced protocol
// version of a client (kmipclient.Client.version) is assigned only by negotiateVersion (under contract), from the
// enforced-version option when a client is built, or as a copy of the version of the client being cloned; its
// address never escapes and nothing is stored through it. With this frame the contract of negotiateVersion
// ("a version that is already set is the enforced one and is left alone") carries over to every client.
func init() {
	extraCheckers["fieldframe:C13"] = func(pc *PropConfig, l *Loaded, tier string, seed int, replayDir string) extraResult {
		mod := "github.com/ovh/kmip-go"
		funcs := allFunctions(l.prog, mod)
		isClientVersion := func(fa *ssa.FieldAddr) bool {
			pt, ok := fa.X.Type().Underlying().(*types.Pointer)
			if !ok {
				return false
			}
			named, ok := pt.Elem().(*types.Named)
			if !ok || named.Obj().Pkg() == nil || named.Obj().Pkg().Path() != mod+"/kmipclient" || named.Obj().Name() != "Client" {
				return false
			}
			st, ok := named.Underlying().(*types.Struct)
			return ok && st.Field(fa.Field).Name() == "version"
		}
		fieldLoad := func(v ssa.Value, field string) bool {
			u, ok := v.(*ssa.UnOp)
			if !ok || u.Op != token.MUL {
				return false
			}
			fa, ok := u.X.(*ssa.FieldAddr)
			if !ok {
				return false
			}
			pt, ok := fa.X.Type().Underlying().(*types.Pointer)
			if !ok {
				return false
			}
			st, ok := pt.Elem().Underlying().(*types.Struct)
			return ok && st.Field(fa.Field).Name() == field
		}
		classify := func(f *ssa.Function, v ssa.Value) string {
			if relFuncName(f) == "(*kmipclient.Client).negotiateVersion" {
				return "negotiation"
			}
			if fieldLoad(v, "enforceVersion") {
				return "enforced-option"
			}
			if al, ok := v.(*ssa.Alloc); ok {
				// a fresh copy of another client's version: the only store into the allocation is *src.version
				var stores []*ssa.Store
				other := false
				for _, r := range *al.Referrers() {
					switch r := r.(type) {
					case *ssa.Store:
						if r.Addr == al {
							stores = append(stores, r)
						} else if r.Val == al {
							// stored as a field value (the site being classified)
						} else {
							other = true
						}
					case *ssa.DebugRef:
					default:
						other = true
					}
				}
				if !other && len(stores) == 1 {
					if u, ok := stores[0].Val.(*ssa.UnOp); ok && u.Op == token.MUL && fieldLoad(u.X, "version") {
						return "clone-copy"
					}
				}
			}
			return ""
		}
		var obs []tableOb
		sites := map[string]int{}
		for _, f := range funcs {
			if f.Pkg != nil && (strings.HasSuffix(f.Pkg.Pkg.Path(), "/kmiptest") || strings.HasSuffix(f.Pkg.Pkg.Path(), "/examples")) {
				continue
			}
			for _, b := range f.Blocks {
				for _, ins := range b.Instrs {
					fa, ok := ins.(*ssa.FieldAddr)
					if !ok || !isClientVersion(fa) {
						continue
					}
					for _, r := range *fa.Referrers() {
						pos := l.prog.Fset.Position(r.Pos())
						where := fmt.Sprintf("%s:%d", filepath.Base(pos.Filename), pos.Line)
						switch r := r.(type) {
						case *ssa.Store:
							if r.Addr != fa {
								obs = append(obs, tableOb{name: "C13#fieldframe:" + relFuncName(f) + ":escape", ok: false, what: "the address of Client.version is stored at " + where})
								continue
							}
							cl := classify(f, r.Val)
							sites[cl]++
							obs = append(obs, tableOb{name: fmt.Sprintf("C13#fieldframe:%s:store", relFuncName(f)), ok: cl != "",
								what: fmt.Sprintf("%s assigns Client.version at %s with a value that is neither the enforced-version option, nor a copy of the cloned client's version, nor the result of negotiateVersion", relFuncName(f), where)})
						case *ssa.UnOp:
							// a load of the pointer: nothing may be stored through it
							for _, r2 := range *r.Referrers() {
								if s, ok := r2.(*ssa.Store); ok && s.Addr == r {
									obs = append(obs, tableOb{name: "C13#fieldframe:" + relFuncName(f) + ":through", ok: false, what: "a store through Client.version at " + where + " (the version may be a shared constant such as kmip.V1_0)"})
								}
							}
						case *ssa.DebugRef:
						default:
							obs = append(obs, tableOb{name: "C13#fieldframe:" + relFuncName(f) + ":escape", ok: false, what: fmt.Sprintf("the address of Client.version is used by %T at %s", r, where)})
						}
					}
				}
			}
		}
		// the configured version set of a client: assigned only from the options' set (Dial, cluster dial) or as a
		// clone of the set of the client being cloned
		isClientField := func(fa *ssa.FieldAddr, field string) bool {
			pt, ok := fa.X.Type().Underlying().(*types.Pointer)
			if !ok {
				return false
			}
			named, ok := pt.Elem().(*types.Named)
			if !ok || named.Obj().Pkg() == nil || named.Obj().Pkg().Path() != mod+"/kmipclient" || named.Obj().Name() != "Client" {
				return false
			}
			st, ok := named.Underlying().(*types.Struct)
			return ok && st.Field(fa.Field).Name() == field
		}
		setSites := 0
		for _, f := range funcs {
			if f.Pkg != nil && (strings.HasSuffix(f.Pkg.Pkg.Path(), "/kmiptest") || strings.HasSuffix(f.Pkg.Pkg.Path(), "/examples")) {
				continue
			}
			for _, b := range f.Blocks {
				for _, ins := range b.Instrs {
					st, ok := ins.(*ssa.Store)
					if !ok {
						continue
					}
					fa, ok := st.Addr.(*ssa.FieldAddr)
					if !ok || !isClientField(fa, "supportedVersions") {
						continue
					}
					setSites++
					okv := fieldLoad(st.Val, "supportedVersions")
					if c, isCall := st.Val.(*ssa.Call); isCall && !okv {
						// slices.Clone(src.supportedVersions)
						callee := c.Call.StaticCallee()
						if callee != nil && callee.Origin() != nil {
							callee = callee.Origin()
						}
						if callee != nil && callee.Pkg != nil && callee.Pkg.Pkg.Path() == "slices" && strings.HasPrefix(callee.Name(), "Clone") && len(c.Call.Args) == 1 {
							okv = fieldLoad(c.Call.Args[0], "supportedVersions")
						}
					}
					pos := l.prog.Fset.Position(st.Pos())
					obs = append(obs, tableOb{name: fmt.Sprintf("C13#fieldframe:%s:versions", relFuncName(f)), ok: okv,
						what: fmt.Sprintf("%s assigns Client.supportedVersions at %s:%d with a value that is neither the version set of the options nor a clone of the cloned client's set", relFuncName(f), filepath.Base(pos.Filename), pos.Line)})
				}
			}
		}
		obs = append(obs, tableOb{name: "C13#fieldframe:version-set-sites", ok: setSites >= 3, what: fmt.Sprintf("expected assignments of Client.supportedVersions not found (%d)", setSites)})
		// vacuity: the known write sites must have been seen
		obs = append(obs, tableOb{name: "C13#fieldframe:sites", ok: sites["negotiation"] >= 2 && sites["enforced-option"] >= 1 && sites["clone-copy"] >= 1,
			what: fmt.Sprintf("expected assignments of Client.version not found (negotiation %d, enforced option %d, clone copy %d): the frame would be vacuous", sites["negotiation"], sites["enforced-option"], sites["clone-copy"])})
		er := tableResult(pc, obs, replayDir, []string{
			"frame over the field kmipclient.Client.version: syntactic, over go/ssa of the whole module (every FieldAddr of that field and every use of it); reflection and unsafe are not considered",
		})
		for i := range er.violations {
			er.violations[i] += " no-failing-input-found"
		}
		for i := range er.records {
			er.records[i].Kind = "gframe"
			er.records[i].Func = strings.TrimPrefix(er.records[i].Name, "C13#fieldframe:")
			er.records[i].Solver = "frame inference over go/ssa (no solver needed)"
		}
		return er
	}
}

// sends — "a goroutine of a connection never blocks for ever on a channel send": a structural sufficient
// condition over go/ssa of the packages kmipserver and kmipclient. Every send that is not an alternative of a
// select with at least one other alternative (in this code: the connection or call context being done) must be on
// a channel whose every creation site, found through the struct field that carries it, is a make(chan T, n) with
// a constant n >= 1 (the code sends at most once on such a channel before closing it: not checked). This is the
// schedule-independent part of the clauses "no goroutine of an ended connection is kept" of C08, C11 and C16.
func init() {
	extraCheckers["sends"] = func(pc *PropConfig, l *Loaded, tier string, seed int, replayDir string) extraResult {
		mod := "github.com/ovh/kmip-go"
		inScope := func(f *ssa.Function) bool {
			if f.Pkg == nil {
				if f.Parent() != nil && f.Parent().Pkg != nil {
					p := f.Parent().Pkg.Pkg.Path()
					return p == mod+"/kmipserver" || p == mod+"/kmipclient"
				}
				return false
			}
			p := f.Pkg.Pkg.Path()
			return p == mod+"/kmipserver" || p == mod+"/kmipclient"
		}
		type fieldKey struct {
			st  string
			idx int
		}
		keyOf := func(t types.Type, idx int) (fieldKey, bool) {
			if p, ok := t.Underlying().(*types.Pointer); ok {
				t = p.Elem()
			}
			if _, ok := t.Underlying().(*types.Struct); !ok {
				return fieldKey{}, false
			}
			return fieldKey{typeKey(t), idx}, true
		}
		funcs := allFunctions(l.prog, mod)
		stores := map[fieldKey][]ssa.Value{}
		for _, f := range funcs {
			if !inScope(f) {
				continue
			}
			for _, b := range f.Blocks {
				for _, ins := range b.Instrs {
					if st, ok := ins.(*ssa.Store); ok {
						if fa, ok := st.Addr.(*ssa.FieldAddr); ok {
							if _, isChan := st.Val.Type().Underlying().(*types.Chan); isChan {
								if k, ok := keyOf(fa.X.Type(), fa.Field); ok {
									stores[k] = append(stores[k], st.Val)
								}
							}
						}
					}
				}
			}
		}
		buffered := func(v ssa.Value) bool {
			for {
				// a bidirectional channel stored into a send-only field goes through a type change
				if ct, ok := v.(*ssa.ChangeType); ok {
					v = ct.X
					continue
				}
				break
			}
			mc, ok := v.(*ssa.MakeChan)
			if !ok {
				return false
			}
			c, ok := mc.Size.(*ssa.Const)
			return ok && c.Value != nil && c.Int64() >= 1
		}
		var obs []tableOb
		plain := 0
		for _, f := range funcs {
			if !inScope(f) {
				continue
			}
			ord := 0
			for _, b := range f.Blocks {
				for _, ins := range b.Instrs {
					switch s := ins.(type) {
					case *ssa.Select:
						hasSend := false
						for _, stt := range s.States {
							if stt.Dir == types.SendOnly {
								hasSend = true
							}
						}
						if hasSend {
							obs = append(obs, tableOb{name: fmt.Sprintf("%s#send:%s#%d", pc.ID, relFuncName(f), ord), ok: !s.Blocking || len(s.States) >= 2,
								what: fmt.Sprintf("%s: a select with a send as its only alternative blocks for ever when nobody receives (%s)", relFuncName(f), l.prog.Fset.Position(s.Pos()))})
							ord++
						}
					case *ssa.Send:
						plain++
						pos := l.prog.Fset.Position(s.Pos())
						ok := false
						why := "the channel is not created buffered in sight"
						switch c := s.Chan.(type) {
						case *ssa.MakeChan:
							ok = buffered(c)
						case *ssa.Field:
							if k, kok := keyOf(c.X.Type(), c.Field); kok {
								ok = len(stores[k]) > 0
								for _, v := range stores[k] {
									if !buffered(v) {
										ok = false
										why = fmt.Sprintf("field %s#%d is assigned an unbuffered or unknown channel", k.st, k.idx)
									}
								}
							}
						case *ssa.UnOp:
							if fa, isFA := c.X.(*ssa.FieldAddr); isFA {
								if k, kok := keyOf(fa.X.Type(), fa.Field); kok {
									ok = len(stores[k]) > 0
									for _, v := range stores[k] {
										if !buffered(v) {
											ok = false
											why = fmt.Sprintf("field %s#%d is assigned an unbuffered or unknown channel", k.st, k.idx)
										}
									}
								}
							}
						}
						obs = append(obs, tableOb{name: fmt.Sprintf("%s#send:%s#%d", pc.ID, relFuncName(f), ord), ok: ok,
							what: fmt.Sprintf("%s: unconditional channel send at %s:%d can block for ever once the receiver has gone (%s)", relFuncName(f), filepath.Base(pos.Filename), pos.Line, why)})
						ord++
					}
				}
			}
		}
		// a channel that is sent on must be closed, if at all, by the function that sends on it: closing it from
		// another function (another goroutine) makes a concurrent send panic ("send on closed channel")
		sendersOf := map[string]map[string]bool{} // channel element type -> functions sending on such a channel
		// channels are identified by how they are reached: the struct field that carries them, the make(chan)
		// they come from when that is in the same function, otherwise (a channel kept in an atomic.Value, a
		// parameter) their element type
		var chanKeyIn func(f *ssa.Function, v ssa.Value) string
		chanKeyIn = func(f *ssa.Function, v ssa.Value) string {
			switch c := v.(type) {
			case *ssa.ChangeType:
				return chanKeyIn(f, c.X)
			case *ssa.MakeChan:
				return fmt.Sprintf("local:%s:%d", relFuncName(f), c.Pos())
			case *ssa.Field:
				if k, ok := keyOf(c.X.Type(), c.Field); ok {
					return fmt.Sprintf("field:%s#%d", k.st, k.idx)
				}
			case *ssa.UnOp:
				if fa, ok := c.X.(*ssa.FieldAddr); ok {
					if k, ok := keyOf(fa.X.Type(), fa.Field); ok {
						return fmt.Sprintf("field:%s#%d", k.st, k.idx)
					}
				}
			}
			if ch, ok := v.Type().Underlying().(*types.Chan); ok {
				return "type:" + typeKey(ch.Elem())
			}
			return ""
		}
		for _, f := range funcs {
			if !inScope(f) {
				continue
			}
			for _, b := range f.Blocks {
				for _, ins := range b.Instrs {
					switch s := ins.(type) {
					case *ssa.Send:
						if k := chanKeyIn(f, s.Chan); k != "" {
							if sendersOf[k] == nil {
								sendersOf[k] = map[string]bool{}
							}
							sendersOf[k][relFuncName(f)] = true
						}
					case *ssa.Select:
						for _, stt := range s.States {
							if stt.Dir == types.SendOnly {
								if k := chanKeyIn(f, stt.Chan); k != "" {
									if sendersOf[k] == nil {
										sendersOf[k] = map[string]bool{}
									}
									sendersOf[k][relFuncName(f)] = true
								}
							}
						}
					}
				}
			}
		}
		for _, f := range funcs {
			if !inScope(f) {
				continue
			}
			ord := 0
			for _, b := range f.Blocks {
				for _, ins := range b.Instrs {
					c, ok := ins.(*ssa.Call)
					if !ok {
						continue
					}
					bi, ok := c.Call.Value.(*ssa.Builtin)
					if !ok || bi.Name() != "close" || len(c.Call.Args) != 1 {
						continue
					}
					k := chanKeyIn(f, c.Call.Args[0])
					var others []string
					for fn := range sendersOf[k] {
						if fn != relFuncName(f) {
							others = append(others, fn)
						}
					}
					sort.Strings(others)
					pos := l.prog.Fset.Position(c.Pos())
					obs = append(obs, tableOb{name: fmt.Sprintf("%s#close:%s#%d", pc.ID, relFuncName(f), ord), ok: len(others) == 0,
						what: fmt.Sprintf("%s closes the channel %s at %s:%d while %s send(s) on it: a send racing with the close panics", relFuncName(f), k, filepath.Base(pos.Filename), pos.Line, strings.Join(others, ", "))})
					ord++
				}
			}
		}
		obs = append(obs, tableOb{name: pc.ID + "#send:sites", ok: len(obs) >= 4, what: fmt.Sprintf("only %d channel sends found in kmipserver and kmipclient (%d unconditional): the check would be vacuous", len(obs), plain)})
		er := tableResult(pc, obs, replayDir, []string{
			"channel sends: structural rule over go/ssa of kmipserver and kmipclient (selects with an alternative; buffered channels found through the struct field that carries them); that at most one value is sent on a buffered channel of capacity 1 is not checked; receives and other blocking operations are not covered",
		})
		for i := range er.violations {
			er.violations[i] += " no-failing-input-found"
		}
		for i := range er.records {
			er.records[i].Kind = "gframe"
			er.records[i].Func = "channel sends"
			er.records[i].Solver = "structural rule over go/ssa (no solver needed)"
		}
		return er
	}
}
