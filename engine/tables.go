package main

// L5: finite registries. The literal-only init data of the module (tag names, enumeration tables, bit masks,
// operation/object/attribute registrations, version= struct tags) is evaluated from the typed AST and every
// entry is checked against the pre-conditions of the Register* functions ("neither the number nor the name is
// already registered in that scope"), the lexical side conditions the text readers rely on, and the pinned
// tables under /verif/spec. One obligation per entry; exhaustive.

import (
	"encoding/json"
	"fmt"
	"go/ast"
	"go/constant"
	"go/types"
	"os"
	"path/filepath"
	"reflect"
	"regexp"
	"sort"
	"strconv"
	"strings"

	"golang.org/x/tools/go/packages"
	"golang.org/x/tools/go/ssa"
)

type TagEntry struct {
	Name  string `json:"name"`
	Value int64  `json:"value"`
}

type EnumTable struct {
	Tag     int64            `json:"tag"`
	TagName string           `json:"tag_name"`
	GoType  string           `json:"go_type"`
	Values  map[string]int64 `json:"values"` // name -> value
	Pos     string           `json:"-"`
	dups    []string
}

type MaskTable struct {
	Tag    int64    `json:"tag"`
	GoType string   `json:"go_type"`
	Names  []string `json:"names"`
}

type OpEntry struct {
	Op       int64  `json:"op"`
	OpName   string `json:"op_name"`
	Request  string `json:"request_type"`
	Response string `json:"response_type"`
	reqOp    *int64
	respOp   *int64
	Pos      string `json:"-"`
}

type ObjEntry struct {
	ObjectType int64  `json:"object_type"`
	GoType     string `json:"go_type"`
	method     *int64
}

type AttrEntry struct {
	Name   string `json:"name"`
	GoType string `json:"go_type"`
}

type VersionField struct {
	Struct string `json:"struct"`
	Field  string `json:"field"`
	Range  string `json:"range"`
}

type Registry struct {
	Tags       []TagEntry     `json:"tags"`
	Enums      []*EnumTable   `json:"enums"`
	Masks      []*MaskTable   `json:"masks"`
	Operations []*OpEntry     `json:"operations"`
	Objects    []*ObjEntry    `json:"objects"`
	Attributes []AttrEntry    `json:"attributes"`
	Versions   []VersionField `json:"version_fields"`
	tagDupNames []string
}

func constInt(info *types.Info, e ast.Expr) (int64, bool) {
	tv, ok := info.Types[e]
	if !ok || tv.Value == nil {
		return 0, false
	}
	v := constant.ToInt(tv.Value)
	if v.Kind() != constant.Int {
		return 0, false
	}
	i, ok := constant.Int64Val(v)
	return i, ok
}

func constString(info *types.Info, e ast.Expr) (string, bool) {
	tv, ok := info.Types[e]
	if !ok || tv.Value == nil || tv.Value.Kind() != constant.String {
		return "", false
	}
	return constant.StringVal(tv.Value), true
}

func shortType(t types.Type) string {
	return types.TypeString(t, func(p *types.Package) string { return p.Name() })
}

// constMethodResult: the constant returned by a method whose body is `return <const>` (via SSA).
func constMethodResult(prog *ssa.Program, t types.Type, name string) *int64 {
	ms := prog.MethodSets.MethodSet(t)
	for i := 0; i < ms.Len(); i++ {
		sel := ms.At(i)
		if sel.Obj().Name() != name {
			continue
		}
		fn := prog.MethodValue(sel)
		if fn == nil || len(fn.Blocks) == 0 {
			return nil
		}
		var found *int64
		for _, b := range fn.Blocks {
			for _, ins := range b.Instrs {
				if ret, ok := ins.(*ssa.Return); ok {
					if len(ret.Results) != 1 {
						return nil
					}
					c, ok := ret.Results[0].(*ssa.Const)
					if !ok || c.Value == nil {
						return nil
					}
					v, ok := constant.Int64Val(constant.ToInt(c.Value))
					if !ok {
						return nil
					}
					if found != nil && *found != v {
						return nil
					}
					found = &v
				}
			}
		}
		return found
	}
	return nil
}

func extractRegistry(l *Loaded) (*Registry, error) {
	reg := &Registry{}
	var root, payloadsPkg *packages.Package
	packages.Visit(l.pkgs, nil, func(p *packages.Package) {
		switch p.PkgPath {
		case "github.com/ovh/kmip-go":
			root = p
		case "github.com/ovh/kmip-go/payloads":
			payloadsPkg = p
		}
	})
	if root == nil {
		return nil, fmt.Errorf("root package not loaded")
	}
	info := root.TypesInfo
	tagNameOf := map[int64]string{}
	for _, f := range root.Syntax {
		ast.Inspect(f, func(n ast.Node) bool {
			switch x := n.(type) {
			case *ast.ValueSpec:
				for i, nm := range x.Names {
					if i >= len(x.Values) {
						continue
					}
					cl, ok := x.Values[i].(*ast.CompositeLit)
					if !ok {
						continue
					}
					switch nm.Name {
					case "tagNames":
						seen := map[string]bool{}
						for _, el := range cl.Elts {
							kv := el.(*ast.KeyValueExpr)
							k, ok1 := constInt(info, kv.Key)
							v, ok2 := constString(info, kv.Value)
							if ok1 && ok2 {
								reg.Tags = append(reg.Tags, TagEntry{Name: v, Value: k})
								tagNameOf[k] = v
								if seen[v] {
									reg.tagDupNames = append(reg.tagDupNames, v)
								}
								seen[v] = true
							}
						}
					case "objectTypes":
						for _, el := range cl.Elts {
							kv := el.(*ast.KeyValueExpr)
							k, ok1 := constInt(info, kv.Key)
							if !ok1 {
								continue
							}
							if t := typeForArg(info, kv.Value); t != nil {
								oe := &ObjEntry{ObjectType: k, GoType: shortType(t)}
								oe.method = constMethodResult(l.prog, types.NewPointer(t), "ObjectType")
								reg.Objects = append(reg.Objects, oe)
							}
						}
					case "attrTypes":
						for _, el := range cl.Elts {
							kv := el.(*ast.KeyValueExpr)
							k, ok1 := constString(info, kv.Key)
							if !ok1 {
								continue
							}
							if t := typeForArg(info, kv.Value); t != nil {
								reg.Attributes = append(reg.Attributes, AttrEntry{Name: k, GoType: shortType(t)})
							}
						}
					}
				}
			case *ast.CallExpr:
				fn := calleeName(x.Fun)
				switch fn {
				case "ttlv.RegisterEnum":
					if len(x.Args) != 2 {
						return true
					}
					tag, ok := constInt(info, x.Args[0])
					cl, ok2 := x.Args[1].(*ast.CompositeLit)
					if !ok || !ok2 {
						return true
					}
					et := &EnumTable{Tag: tag, Values: map[string]int64{}, Pos: l.prog.Fset.Position(x.Pos()).String()}
					if tv, ok := info.Types[x.Args[1]]; ok {
						if mt, ok := tv.Type.Underlying().(*types.Map); ok {
							et.GoType = shortType(mt.Key())
						}
					}
					for _, el := range cl.Elts {
						kv := el.(*ast.KeyValueExpr)
						k, ok1 := constInt(info, kv.Key)
						v, ok2 := constString(info, kv.Value)
						if ok1 && ok2 {
							if _, dup := et.Values[v]; dup {
								et.dups = append(et.dups, v)
							}
							et.Values[v] = k
						}
					}
					reg.Enums = append(reg.Enums, et)
				case "ttlv.RegisterBitmask":
					if len(x.Args) < 1 {
						return true
					}
					tag, ok := constInt(info, x.Args[0])
					if !ok {
						return true
					}
					mt := &MaskTable{Tag: tag}
					if ix, ok := x.Fun.(*ast.IndexExpr); ok {
						if tv, ok := info.Types[ix.Index]; ok {
							mt.GoType = shortType(tv.Type)
						}
					}
					for _, a := range x.Args[1:] {
						if s, ok := constString(info, a); ok {
							mt.Names = append(mt.Names, s)
						}
					}
					reg.Masks = append(reg.Masks, mt)
				}
			}
			return true
		})
	}
	for _, e := range reg.Enums {
		e.TagName = tagNameOf[e.Tag]
	}
	// operation registrations (payloads package)
	if payloadsPkg != nil {
		pinfo := payloadsPkg.TypesInfo
		opNames := map[int64]string{}
		for _, e := range reg.Enums {
			if e.TagName == "Operation" {
				for n, v := range e.Values {
					opNames[v] = n
				}
			}
		}
		for _, f := range payloadsPkg.Syntax {
			ast.Inspect(f, func(n ast.Node) bool {
				call, ok := n.(*ast.CallExpr)
				if !ok {
					return true
				}
				var fun ast.Expr = call.Fun
				var targs []ast.Expr
				switch ix := fun.(type) {
				case *ast.IndexListExpr:
					fun, targs = ix.X, ix.Indices
				case *ast.IndexExpr:
					fun, targs = ix.X, []ast.Expr{ix.Index}
				}
				if calleeName(fun) != "kmip.RegisterOperationPayload" || len(targs) != 2 || len(call.Args) != 1 {
					return true
				}
				op, ok := constInt(pinfo, call.Args[0])
				if !ok {
					return true
				}
				rt, st := pinfo.Types[targs[0]].Type, pinfo.Types[targs[1]].Type
				oe := &OpEntry{Op: op, OpName: opNames[op], Request: shortType(rt), Response: shortType(st), Pos: l.prog.Fset.Position(call.Pos()).String()}
				oe.reqOp = constMethodResult(l.prog, types.NewPointer(rt), "Operation")
				oe.respOp = constMethodResult(l.prog, types.NewPointer(st), "Operation")
				reg.Operations = append(reg.Operations, oe)
				return true
			})
		}
	}
	// version= struct tags in every loaded module package
	packages.Visit(l.pkgs, nil, func(p *packages.Package) {
		if !strings.HasPrefix(p.PkgPath, "github.com/ovh/kmip-go") {
			return
		}
		for _, f := range p.Syntax {
			ast.Inspect(f, func(n ast.Node) bool {
				ts, ok := n.(*ast.TypeSpec)
				if !ok {
					return true
				}
				st, ok := ts.Type.(*ast.StructType)
				if !ok {
					return true
				}
				for _, fld := range st.Fields.List {
					if fld.Tag == nil {
						continue
					}
					raw, err := strconv.Unquote(fld.Tag.Value)
					if err != nil {
						continue
					}
					tv := reflect.StructTag(raw).Get("ttlv")
					for _, part := range strings.Split(tv, ",") {
						if part == "set-version" {
							// the header field whose value becomes the version of the message being encoded / decoded
							for _, nm := range fld.Names {
								reg.Versions = append(reg.Versions, VersionField{Struct: p.Name + "." + ts.Name.Name, Field: nm.Name, Range: "set-version"})
							}
						}
						if strings.HasPrefix(part, "version=") {
							for _, nm := range fld.Names {
								reg.Versions = append(reg.Versions, VersionField{Struct: p.Name + "." + ts.Name.Name, Field: nm.Name, Range: strings.TrimPrefix(part, "version=")})
							}
						}
					}
				}
				return true
			})
		}
	})
	sort.Slice(reg.Tags, func(i, j int) bool { return reg.Tags[i].Value < reg.Tags[j].Value })
	sort.Slice(reg.Enums, func(i, j int) bool { return reg.Enums[i].Tag < reg.Enums[j].Tag })
	sort.Slice(reg.Operations, func(i, j int) bool { return reg.Operations[i].Op < reg.Operations[j].Op })
	sort.Slice(reg.Objects, func(i, j int) bool { return reg.Objects[i].ObjectType < reg.Objects[j].ObjectType })
	sort.Slice(reg.Attributes, func(i, j int) bool { return reg.Attributes[i].Name < reg.Attributes[j].Name })
	sort.Slice(reg.Versions, func(i, j int) bool {
		return reg.Versions[i].Struct+"."+reg.Versions[i].Field < reg.Versions[j].Struct+"."+reg.Versions[j].Field
	})
	return reg, nil
}

func calleeName(e ast.Expr) string {
	switch x := e.(type) {
	case *ast.SelectorExpr:
		if id, ok := x.X.(*ast.Ident); ok {
			return id.Name + "." + x.Sel.Name
		}
	case *ast.Ident:
		return x.Name
	case *ast.IndexExpr:
		return calleeName(x.X)
	case *ast.IndexListExpr:
		return calleeName(x.X)
	}
	return ""
}

// typeForArg: the T of reflect.TypeFor[T]().
func typeForArg(info *types.Info, e ast.Expr) types.Type {
	call, ok := e.(*ast.CallExpr)
	if !ok {
		return nil
	}
	ix, ok := call.Fun.(*ast.IndexExpr)
	if !ok || calleeName(ix.X) != "reflect.TypeFor" {
		return nil
	}
	if tv, ok := info.Types[ix.Index]; ok {
		return tv.Type
	}
	return nil
}

var decimalRe = regexp.MustCompile(`^[+-]?[0-9]+$`)

// lexicalOK: the side conditions that let the text readers map a written name back to its number.
func lexicalProblem(name string) string {
	switch {
	case name == "":
		return "empty name"
	case decimalRe.MatchString(name):
		return "name is a decimal number"
	case strings.HasPrefix(name, "0x") || strings.HasPrefix(name, "0X"):
		return "name starts with 0x"
	case strings.ContainsAny(name, " \t\n|,"):
		return "name contains a blank or separator"
	}
	return ""
}

func specPath(name string) string { return filepath.Join(verifDir(), "spec", name) }

func loadSpec(name string, v any) bool {
	data, err := os.ReadFile(specPath(name))
	if err != nil {
		return false
	}
	return json.Unmarshal(data, v) == nil
}

type tableOb struct {
	name string
	ok   bool
	what string
}

func tableResult(pc *PropConfig, obs []tableOb, replayDir string, assumptions []string) extraResult {
	er := extraResult{assumptions: assumptions}
	for _, o := range obs {
		er.obligations++
		rec := obRecord{Name: o.name, Kind: "table", Func: "registry", Status: "evaluated", Solver: "constant evaluation of the typed AST"}
		if o.ok {
			er.discharged++
			er.names = append(er.names, o.name)
			rec.Verdict = "discharged"
		} else {
			rec.Verdict = "violation"
			file := filepath.Join(replayDir, fmt.Sprintf("%s-%s.json", pc.ID, sanitize(o.name)))
			doc := map[string]any{"property": pc.ID, "obligation": o.name, "outcome": "table entry fails", "failing_entry": o.what}
			js, _ := json.MarshalIndent(doc, "", " ")
			os.WriteFile(file, js, 0o644)
			er.violations = append(er.violations, fmt.Sprintf("VIOLATION property=%s replay=%s obligation=%s entry=%q", pc.ID, file, o.name, o.what))
		}
		er.records = append(er.records, rec)
	}
	if len(obs) > 0 {
		er.samples = append(er.samples, map[string]any{"obligation": obs[0].name, "kind": "table"}, map[string]any{"obligation": obs[len(obs)/2].name, "kind": "table"})
	}
	return er
}

func init() {
	extraCheckers["tables:C17"] = func(pc *PropConfig, l *Loaded, tier string, seed int, replayDir string) extraResult {
		reg, err := extractRegistry(l)
		if err != nil {
			return extraResult{errors: []string{err.Error()}}
		}
		var obs []tableOb
		var pinned Registry
		havePinned := loadSpec("registry.json", &pinned)
		// tags
		byName := map[string]int64{}
		byVal := map[int64]string{}
		for _, t := range reg.Tags {
			n := fmt.Sprintf("C17#tag:%s", t.Name)
			_, dupN := byName[t.Name]
			_, dupV := byVal[t.Value]
			lp := lexicalProblem(t.Name)
			ok := !dupN && !dupV && lp == "" && t.Value >= 0 && t.Value < 1<<24
			what := ""
			if !ok {
				what = fmt.Sprintf("tag %s = 0x%06X: duplicate name=%v duplicate value=%v %s", t.Name, t.Value, dupN, dupV, lp)
			}
			obs = append(obs, tableOb{n, ok, what})
			byName[t.Name] = t.Value
			byVal[t.Value] = t.Name
		}
		for _, d := range reg.tagDupNames {
			obs = append(obs, tableOb{"C17#tag-unique-name:" + d, false, "tag name " + d + " is given to two numbers"})
		}
		// enums
		seenEnumTag := map[int64]bool{}
		for _, e := range reg.Enums {
			scope := e.TagName
			if scope == "" {
				scope = fmt.Sprintf("0x%06X", e.Tag)
			}
			obs = append(obs, tableOb{"C17#enum-table:" + scope, !seenEnumTag[e.Tag] && e.TagName != "", fmt.Sprintf("enumeration table for tag %s registered twice or for an unregistered tag", scope)})
			seenEnumTag[e.Tag] = true
			vals := map[int64]string{}
			var names []string
			for n := range e.Values {
				names = append(names, n)
			}
			sort.Strings(names)
			for _, n := range names {
				v := e.Values[n]
				prev, dupV := vals[v]
				lp := lexicalProblem(n)
				ok := !dupV && lp == "" && v >= 0 && v <= 0xFFFFFFFF
				what := ""
				if !ok {
					what = fmt.Sprintf("%s.%s = %d: value also named %q; %s", scope, n, v, prev, lp)
				}
				obs = append(obs, tableOb{fmt.Sprintf("C17#enum:%s.%s", scope, n), ok, what})
				vals[v] = n
			}
			for _, d := range e.dups {
				obs = append(obs, tableOb{fmt.Sprintf("C17#enum-unique-name:%s.%s", scope, d), false, fmt.Sprintf("name %s denotes two values of %s", d, scope)})
			}
		}
		// masks
		for _, m := range reg.Masks {
			scope := byVal[m.Tag]
			seen := map[string]bool{}
			obs = append(obs, tableOb{"C17#mask-table:" + scope, scope != "" && len(m.Names) <= 32, "mask for an unregistered tag or with more than 32 flags"})
			for i, n := range m.Names {
				lp := lexicalProblem(n)
				ok := !seen[n] && lp == ""
				obs = append(obs, tableOb{fmt.Sprintf("C17#mask:%s.%s", scope, n), ok, fmt.Sprintf("flag %d of %s: %q duplicate=%v %s", i, scope, n, seen[n], lp)})
				seen[n] = true
			}
		}
		// stability against the pinned registry
		if havePinned {
			pt := map[string]int64{}
			for _, t := range pinned.Tags {
				pt[t.Name] = t.Value
			}
			for _, t := range reg.Tags {
				v, ok := pt[t.Name]
				obs = append(obs, tableOb{"C17#pinned-tag:" + t.Name, ok && v == t.Value, fmt.Sprintf("tag %s = 0x%06X differs from the pinned registry (0x%06X, present=%v)", t.Name, t.Value, v, ok)})
				delete(pt, t.Name)
			}
			for n, v := range pt {
				obs = append(obs, tableOb{"C17#pinned-tag:" + n, false, fmt.Sprintf("tag %s = 0x%06X of the pinned registry is no longer registered", n, v)})
			}
			pe := map[int64]*EnumTable{}
			for _, e := range pinned.Enums {
				pe[e.Tag] = e
			}
			for _, e := range reg.Enums {
				p := pe[e.Tag]
				same := p != nil && len(p.Values) == len(e.Values)
				diff := ""
				if p != nil {
					for n, v := range e.Values {
						if pv, ok := p.Values[n]; !ok || pv != v {
							same = false
							diff = fmt.Sprintf("%s=%d (pinned %d, present=%v)", n, v, pv, ok)
						}
					}
				}
				obs = append(obs, tableOb{"C17#pinned-enum:" + e.TagName, same, fmt.Sprintf("enumeration %s differs from the pinned registry: %s", e.TagName, diff)})
			}
			pm := map[int64]*MaskTable{}
			for _, m := range pinned.Masks {
				pm[m.Tag] = m
			}
			for _, m := range reg.Masks {
				p := pm[m.Tag]
				obs = append(obs, tableOb{"C17#pinned-mask:" + byVal[m.Tag], p != nil && reflect.DeepEqual(p.Names, m.Names), "bit mask flags differ from the pinned registry"})
			}
		} else {
			obs = append(obs, tableOb{"C17#pinned-registry-present", false, "spec/registry.json missing"})
		}
		return tableResult(pc, obs, replayDir, []string{"pinned registry /verif/spec/registry.json: generated from the pinned tree and frozen; its agreement with the KMIP 1.0-1.4 specifications beyond the OASIS vectors shipped in the repository is an assumption"})
	}
	extraCheckers["tables:C06"] = func(pc *PropConfig, l *Loaded, tier string, seed int, replayDir string) extraResult {
		reg, err := extractRegistry(l)
		if err != nil {
			return extraResult{errors: []string{err.Error()}}
		}
		var obs []tableOb
		seenOp := map[int64]bool{}
		for _, o := range reg.Operations {
			name := o.OpName
			if name == "" {
				name = fmt.Sprintf("0x%X", o.Op)
			}
			okReq := o.reqOp != nil && *o.reqOp == o.Op
			okResp := o.respOp != nil && *o.respOp == o.Op
			obs = append(obs, tableOb{"C06#pre@RegisterOperationPayload:request.Operation()==" + name, okReq, fmt.Sprintf("%s registered for operation %s reports %v", o.Request, name, ptrStr(o.reqOp))})
			obs = append(obs, tableOb{"C06#pre@RegisterOperationPayload:response.Operation()==" + name, okResp, fmt.Sprintf("%s registered for operation %s reports %v", o.Response, name, ptrStr(o.respOp))})
			obs = append(obs, tableOb{"C06#op-registered-once:" + name, !seenOp[o.Op], "operation " + name + " registered twice"})
			obs = append(obs, tableOb{"C06#op-directions:" + name, strings.HasSuffix(o.Request, "RequestPayload") && strings.HasSuffix(o.Response, "ResponsePayload") && strings.TrimSuffix(lastName(o.Request), "RequestPayload") == strings.TrimSuffix(lastName(o.Response), "ResponsePayload"),
				fmt.Sprintf("operation %s: request type %s / response type %s", name, o.Request, o.Response)})
			seenOp[o.Op] = true
		}
		for _, o := range reg.Objects {
			obs = append(obs, tableOb{fmt.Sprintf("C06#objectTypes:%s", o.GoType), o.method != nil && *o.method == o.ObjectType, fmt.Sprintf("objectTypes[%d] = %s whose ObjectType() reports %v", o.ObjectType, o.GoType, ptrStr(o.method))})
		}
		var pinned Registry
		if loadSpec("registry.json", &pinned) {
			po := map[int64]*OpEntry{}
			for _, o := range pinned.Operations {
				po[o.Op] = o
			}
			for _, o := range reg.Operations {
				p := po[o.Op]
				obs = append(obs, tableOb{"C06#pinned-operation:" + o.OpName, p != nil && p.Request == o.Request && p.Response == o.Response, fmt.Sprintf("operation %s: %s/%s differs from the pinned table", o.OpName, o.Request, o.Response)})
				delete(po, o.Op)
			}
			for _, p := range po {
				obs = append(obs, tableOb{"C06#pinned-operation:" + p.OpName, false, "operation " + p.OpName + " of the pinned table is no longer registered"})
			}
			pa := map[string]string{}
			for _, a := range pinned.Attributes {
				pa[a.Name] = a.GoType
			}
			for _, a := range reg.Attributes {
				t, ok := pa[a.Name]
				obs = append(obs, tableOb{"C06#pinned-attribute:" + a.Name, ok && t == a.GoType, fmt.Sprintf("attribute %q has value type %s (pinned %s, present=%v)", a.Name, a.GoType, t, ok)})
				delete(pa, a.Name)
			}
			for n := range pa {
				obs = append(obs, tableOb{"C06#pinned-attribute:" + n, false, "attribute " + n + " of the pinned table is no longer registered"})
			}
			pob := map[int64]string{}
			for _, o := range pinned.Objects {
				pob[o.ObjectType] = o.GoType
			}
			for _, o := range reg.Objects {
				obs = append(obs, tableOb{"C06#pinned-object:" + o.GoType, pob[o.ObjectType] == o.GoType, fmt.Sprintf("object type %d maps to %s (pinned %s)", o.ObjectType, o.GoType, pob[o.ObjectType])})
			}
		} else {
			obs = append(obs, tableOb{"C06#pinned-registry-present", false, "spec/registry.json missing"})
		}
		return tableResult(pc, obs, replayDir, []string{"Operation()/ObjectType() methods are constant-returning (read from their SSA bodies)", "pinned tables /verif/spec/registry.json (operations, attribute value types, object types) generated from the pinned tree and frozen"})
	}
	extraCheckers["tables:C05"] = func(pc *PropConfig, l *Loaded, tier string, seed int, replayDir string) extraResult {
		reg, err := extractRegistry(l)
		if err != nil {
			return extraResult{errors: []string{err.Error()}}
		}
		var obs []tableOb
		var pinned Registry
		if loadSpec("registry.json", &pinned) {
			pv := map[string]string{}
			for _, v := range pinned.Versions {
				pv[v.Struct+"."+v.Field] = v.Range
			}
			for _, v := range reg.Versions {
				k := v.Struct + "." + v.Field
				r, ok := pv[k]
				obs = append(obs, tableOb{"C05#table:" + k, ok && r == v.Range && (v.Range == "set-version" || versionRangeWF(v.Range)), fmt.Sprintf("%s has version=%s (pinned %q, present=%v)", k, v.Range, r, ok)})
				delete(pv, k)
			}
			for k, r := range pv {
				obs = append(obs, tableOb{"C05#table:" + k, false, fmt.Sprintf("%s lost its version gate (pinned version=%s)", k, r)})
			}
		} else {
			obs = append(obs, tableOb{"C05#pinned-registry-present", false, "spec/registry.json missing"})
		}
		return tableResult(pc, obs, replayDir, []string{"pinned version table /verif/spec/registry.json (struct, field, since-version) generated from the pinned tree, reviewed against the KMIP 1.1-1.4 change lists as remembered, and frozen"})
	}
}

var versionRangeRe = regexp.MustCompile(`^(v?[0-9]+\.[0-9]+)?\.\.(v?[0-9]+\.[0-9]+)?$|^v?[0-9]+\.[0-9]+$`)

func versionRangeWF(s string) bool { return versionRangeRe.MatchString(s) }

func ptrStr(p *int64) string {
	if p == nil {
		return "a non-constant value"
	}
	return fmt.Sprint(*p)
}

func cmdTables(args []string) int {
	l, err := loadRepo("./...")
	if err != nil {
		fmt.Fprintln(os.Stderr, err)
		return 2
	}
	reg, err := extractRegistry(l)
	if err != nil {
		fmt.Fprintln(os.Stderr, err)
		return 2
	}
	data, _ := json.MarshalIndent(reg, "", " ")
	if len(args) > 0 && args[0] == "--write-spec" {
		os.MkdirAll(filepath.Join(verifDir(), "spec"), 0o755)
		if err := os.WriteFile(specPath("registry.json"), data, 0o644); err != nil {
			fmt.Fprintln(os.Stderr, err)
			return 2
		}
		fmt.Printf("wrote %s: %d tags, %d enumerations, %d masks, %d operations, %d objects, %d attributes, %d version fields\n", specPath("registry.json"),
			len(reg.Tags), len(reg.Enums), len(reg.Masks), len(reg.Operations), len(reg.Objects), len(reg.Attributes), len(reg.Versions))
		return 0
	}
	fmt.Println(string(data))
	return 0
}
