package main

// Per-function verification driver: initial state, requires, body, ensures, frame; obligation discharge.

import (
	"fmt"
	"go/token"
	"go/types"
	"regexp"
	"sort"
	"strings"
	"sync"
	"time"

	"golang.org/x/tools/go/ssa"
)

type FuncResult struct {
	Func        string
	Obligations []Discharge
	Aborted     string
	Notes       []string
	Assumptions []string
	Inlined     []string
	Paths       int
	GenSeconds  float64
	exec        *Exec
}

func (x *Exec) topEnv(fn *ssa.Function, params, fvs []Val) map[string]Val {
	env := map[string]Val{}
	for i, p := range fn.Params {
		env[p.Name()] = params[i]
		env[p.Name()+"0"] = params[i]
	}
	for i, f := range fn.FreeVars {
		env["&"+f.Name()] = fvs[i]
	}
	return env
}

// generate symbolically executes fn against its contract and collects obligations.
func (x *Exec) generate(fn *ssa.Function) {
	x.top = fn
	// the element-level codec model (tape.go) is used by the mirror lemmas only
	x.tapeMode = strings.HasPrefix(fn.Name(), "lemmaMirror")
	if x.tapeMode {
		x.maxDepth = 48 // codec call chains are deep (Struct -> callback -> field codec -> Struct ...)
	}
	c := x.cs.forFunc(fn)
	st := newState()
	var params, fvs []Val
	for _, p := range fn.Params {
		v := namedVal(p.Type(), "p."+p.Name())
		x.assumeWF(st, v)
		params = append(params, v)
		x.topParams[p.Name()] = v
	}
	for _, f := range fn.FreeVars {
		v := namedVal(f.Type(), "fv."+f.Name())
		x.assumeWF(st, v)
		st.assume(Not(Eq(v.C[0], IntConst(0))))
		fvs = append(fvs, v)
	}
	for name, g := range x.cs.ghosts {
		ce := &CEnv{x: x, st: st, old: st, pkg: g.Pkg}
		t, err := ce.resolveType(g.Type)
		if err != nil {
			x.fail("ghostvar %s: %v", name, err)
			return
		}
		st.ghost[name] = namedVal(t, "ghost."+name)
	}
	env := x.topEnv(fn, params, fvs)
	pkg := x.cs.pkgOf(fn)
	if c != nil {
		ce := &CEnv{x: x, st: st, old: st, vars: env, pkg: pkg, entryAllocW: st.allocW}
		for _, r := range c.Requires {
			t, err := ce.evalBool(r)
			if err != nil {
				x.fail("%s requires %q: %v", funcName(fn), r.Text, err)
				return
			}
			st.assume(t)
		}
	}
	fr := x.newFrame(fn, params, fvs, st, nil, nil)
	fr.isTop = true
	x.topFrame = fr
	x.topEnvVars = env
	fr.names = map[string]ssa.Value{}
	// vacuity guard: the pre-condition must be satisfiable
	x.obligeCover(fr, st, "cover", "requires", fn.Pos())
	var exitPCs []*Term
	var coverPCs [][]*Term
	defer func() {
		if x.aborted == "" && c != nil {
			for ci, e := range c.Covers {
				ob := &Obligation{Name: fmt.Sprintf("%s#cover:%s", funcName(fn), e.Text), Kind: "cover", Func: funcName(fn), Pos: x.posOf(fn.Pos()), Cover: true, Text: e.Text, seq: len(x.oblOrder)}
				if ci < len(coverPCs) {
					for _, pc := range coverPCs[ci] {
						ob.Cases = append(ob.Cases, Case{PC: pc, Goal: True})
					}
				}
				if len(ob.Cases) == 0 {
					ob.Cases = append(ob.Cases, Case{PC: False, Goal: True})
				}
				x.obls[fmt.Sprintf("cover:%d", ci)] = ob
				x.oblOrder = append(x.oblOrder, ob)
			}
		}
	}()
	defer func() {
		// vacuity guard: some path through the body must reach an exit
		if x.aborted == "" {
			ob := &Obligation{Name: fmt.Sprintf("%s#cover@exit", funcName(fn)), Kind: "cover", Func: funcName(fn), Pos: x.posOf(fn.Pos()), Cover: true, seq: len(x.oblOrder)}
			for _, pc := range exitPCs {
				ob.Cases = append(ob.Cases, Case{PC: pc, Goal: True})
			}
			if len(ob.Cases) == 0 {
				ob.Cases = append(ob.Cases, Case{PC: False, Goal: True})
			}
			x.obls["cover@exit"] = ob
			x.oblOrder = append(x.oblOrder, ob)
		}
	}()
	x.execFunc(fr, st, func(st2 *State, res Val, panicked bool) {
		if !x.countPath() {
			return
		}
		if len(exitPCs) < 3000 {
			exitPCs = append(exitPCs, st2.PC())
		}
		if panicked {
			if c == nil || !c.MayPanic {
				x.obligeAt(fr, st2, "panic", st2.panicWhat, st2.panicPos, False, "")
			} else if c.PanicCond != nil {
				// `maypanic e`: every panic exit comes from an entry state satisfying e
				ce := &CEnv{x: x, st: fr.entry, old: fr.entry, vars: env, pkg: pkg, fr: fr, entryAllocW: fr.entry.allocW}
				t, err := ce.evalBool(c.PanicCond)
				if err != nil {
					x.fail("%s maypanic %q: %v", funcName(fn), c.PanicCond.Text, err)
					return
				}
				x.obligeAt(fr, st2, "panic", st2.panicWhat+" only when "+c.PanicCond.Text, st2.panicPos, t, "")
			}
			return
		}
		if c == nil {
			return
		}
		env2 := map[string]Val{}
		for k, v := range env {
			env2[k] = v
		}
		x.bindResults(env2, c, fn.Signature, res)
		ce := &CEnv{x: x, st: st2, old: fr.entry, vars: env2, pkg: pkg, fr: fr, entryAllocW: fr.entry.allocW}
		// the declared ghost effects are part of the post-state the ensures clauses talk about (same order
		// as at a call site: ghost updates, then ensures)
		for _, g := range c.GhostUpdates {
			if err := ce.ghostUpdate(g); err != nil {
				x.fail("%s ghost %q: %v", funcName(fn), g.Text, err)
				return
			}
		}
		for _, e := range c.Ensures {
			t, err := ce.evalBool(e)
			if err != nil {
				x.fail("%s ensures %q: %v", funcName(fn), e.Text, err)
				return
			}
			x.oblige(fr, st2, "post", "", fn.Pos(), t, e.Text)
		}
		for ci, e := range c.Covers {
			t, err := ce.evalBool(e)
			if err != nil {
				x.fail("%s cover %q: %v", funcName(fn), e.Text, err)
				return
			}
			if len(coverPCs) <= ci {
				coverPCs = append(coverPCs, make([][]*Term, ci+1-len(coverPCs))...)
			}
			if len(coverPCs[ci]) < 3000 {
				coverPCs[ci] = append(coverPCs[ci], And(st2.PC(), t))
			}
		}
		x.frameCheckTop(st2)
	})
}

func (x *Exec) obligeCover(fr *Frame, st *State, kind, target string, pos token.Pos) {
	key := fmt.Sprintf("%s|%s|%s", fr.chain, kind, target)
	name := fmt.Sprintf("%s#%s@%s", funcName(x.top), kind, target)
	ob := &Obligation{Name: name, Kind: kind, Func: funcName(x.top), Pos: x.posOf(pos), Cover: true, seq: len(x.oblOrder)}
	ob.Cases = append(ob.Cases, Case{PC: st.PC(), Goal: True})
	x.obls[key] = ob
	x.oblOrder = append(x.oblOrder, ob)
}

func (x *Exec) obligeAt(fr *Frame, st *State, kind, target, pos string, goal *Term, text string) {
	if st.dry != nil || st.infeasible() {
		return
	}
	key := fmt.Sprintf("%s|%s|%s|%s|%s", fr.chain, kind, target, pos, text)
	ob, ok := x.obls[key]
	if !ok {
		base := fmt.Sprintf("%s#%s", funcName(x.top), kind)
		if target != "" {
			base += "@" + target
		}
		n := x.nameCount[base]
		x.nameCount[base] = n + 1
		name := base
		if n > 0 {
			name = fmt.Sprintf("%s~%d", base, n)
		}
		ob = &Obligation{Name: name, Kind: kind, Func: funcName(x.top), Pos: pos, Text: text, seq: len(x.oblOrder)}
		x.obls[key] = ob
		x.oblOrder = append(x.oblOrder, ob)
	}
	ob.Cases = append(ob.Cases, Case{PC: st.PC(), Goal: goal})
}

// frameCheckTop checks the stores of the current path against the frame of the function under verification.
func (x *Exec) frameCheckTop(st *State) {
	fr := x.topFrame
	c := x.cs.forFunc(x.top)
	if c == nil || !(c.Pure || c.HasModifies) || st.dry != nil {
		return
	}
	ce := &CEnv{x: x, st: st, old: fr.entry, vars: x.topEnvVars, pkg: x.cs.pkgOf(x.top), fr: fr, entryAllocW: fr.entry.allocW}
	x.frameCheck(fr, st, c, ce, x.top.Pos())
}

// frameCheck: every store performed hits fresh memory or a location named by the modifies clause.
func (x *Exec) frameCheck(fr *Frame, st *State, c *FuncContract, ce *CEnv, pos token.Pos) {
	type allowed struct {
		prefix string // key prefix
		exact  bool
		ref    *Term
	}
	var allow []allowed
	for _, m := range c.Modifies {
		locs, err := ce.evalLocations(m, fr.entry)
		if err != nil {
			x.fail("%s modifies %q: %v", funcName(fr.fn), m.Text, err)
			return
		}
		for _, l := range locs {
			if l.wholeArray {
				allow = append(allow, allowed{prefix: l.key, exact: true, ref: l.ref})
			} else {
				allow = append(allow, allowed{prefix: l.lv.Prefix + "|" + l.lv.Path, ref: l.lv.Ref})
			}
		}
	}
	seen := map[string]bool{}
	for _, w := range st.writes {
		if w.Key == "*" {
			x.oblige(fr, st, "frame", "", pos, False, "unknown callee at "+w.Pos)
			continue
		}
		alts := []*Term{IntCmp("<", w.Ref, fr.entry.allocW)}
		for _, a := range allow {
			if (a.exact && a.prefix == w.Key) || (!a.exact && strings.HasPrefix(w.Key, a.prefix)) {
				alts = append(alts, Eq(w.Ref, a.ref))
			}
		}
		g := Or(alts...)
		k := fmt.Sprintf("%s@%s#%d", w.Key, w.Pos, g.ID)
		if seen[k] {
			continue
		}
		seen[k] = true
		x.oblige(fr, st, "frame", "", pos, g, w.Key+" written at "+w.Pos)
	}
}

// ---------------------------------------------------------------------------

type VerifyOpts struct {
	Kinds    *regexp.Regexp // when set, only obligations of these kinds are discharged
	Timeout  int
	Thorough bool
	Workers  int
	Tag      string
}

func verifyFunction(prog *ssa.Program, fset *token.FileSet, cs *ContractSet, fn *ssa.Function, opts VerifyOpts) *FuncResult {
	x := newExec(prog, fset, cs)
	t0 := time.Now()
	func() {
		defer func() {
			if r := recover(); r != nil {
				x.fail("internal: %v", r)
				if debugPanics {
					panic(r)
				}
			}
		}()
		x.generate(fn)
	}()
	fr := &FuncResult{Func: funcName(fn), Aborted: x.aborted, Paths: x.paths, GenSeconds: time.Since(t0).Seconds(), exec: x}
	for n := range x.notes {
		fr.Notes = append(fr.Notes, n)
	}
	for n := range x.assumptions {
		fr.Assumptions = append(fr.Assumptions, n)
	}
	for n := range x.inlined {
		fr.Inlined = append(fr.Inlined, n)
	}
	sort.Strings(fr.Notes)
	sort.Strings(fr.Assumptions)
	sort.Strings(fr.Inlined)
	if x.aborted != "" {
		return fr
	}
	// model values wanted on sat: scalar components of the parameters
	var values []*Term
	for _, v := range x.topParams {
		for _, c := range v.C {
			if c.Op == "var" && c.Sort.Kind != KArray {
				values = append(values, c)
			}
		}
	}
	sort.Slice(values, func(i, j int) bool { return values[i].Name < values[j].Name })
	res := make([]Discharge, len(x.oblOrder))
	var wg sync.WaitGroup
	sem := make(chan struct{}, opts.Workers)
	for i, ob := range x.oblOrder {
		i, ob := i, ob
		if opts.Kinds != nil && !opts.Kinds.MatchString(ob.Kind) {
			res[i] = Discharge{Ob: ob, Res: SolveResult{Status: "skipped"}}
			continue
		}
		wg.Add(1)
		sem <- struct{}{}
		go func() {
			defer wg.Done()
			defer func() { <-sem }()
			res[i] = discharge(ob, fmt.Sprintf("%s.%d", opts.Tag, i), opts.Timeout, opts.Thorough, values)
		}()
	}
	wg.Wait()
	// second chance with a longer budget for a few obligations left undecided under load
	var again []int
	for i, d := range res {
		if (d.Res.Status == "timeout" || d.Res.Status == "unknown" || d.Res.Status == "cancelled") && !d.Ob.Cover {
			again = append(again, i)
		}
	}
	if len(again) <= 6 {
		var wg2 sync.WaitGroup
		sem2 := make(chan struct{}, 2)
		for _, i := range again {
			i := i
			wg2.Add(1)
			sem2 <- struct{}{}
			go func() {
				defer wg2.Done()
				defer func() { <-sem2 }()
				d := res[i]
				d2 := discharge(x.oblOrder[i], fmt.Sprintf("%s.%d.retry", opts.Tag, i), opts.Timeout*3, opts.Thorough, values)
				d2.Res.Tried = append(append([]string{}, d.Res.Tried...), append([]string{"retry:"}, d2.Res.Tried...)...)
				res[i] = d2
			}()
		}
		wg2.Wait()
	}
	fr.Obligations = res
	return fr
}

var debugPanics = false

var _ = types.Typ
