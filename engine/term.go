package main

// Hash-consed SMT term DAG with a light simplifier and an SMT-LIB 2 printer.

import (
	"fmt"
	"math/big"
	"sort"
	"strings"
	"sync"
)

type SortKind int

const (
	KBool SortKind = iota
	KInt
	KBV
	KArray
)

type Sort struct {
	Kind  SortKind
	Width int
	Idx   *Sort
	Elem  *Sort
	str   string
}

var sortTab = map[string]*Sort{}
var sortMu sync.Mutex

func mkSort(s Sort) *Sort {
	switch s.Kind {
	case KBool:
		s.str = "Bool"
	case KInt:
		s.str = "Int"
	case KBV:
		s.str = fmt.Sprintf("(_ BitVec %d)", s.Width)
	case KArray:
		s.str = fmt.Sprintf("(Array %s %s)", s.Idx.str, s.Elem.str)
	}
	sortMu.Lock()
	defer sortMu.Unlock()
	if x, ok := sortTab[s.str]; ok {
		return x
	}
	p := new(Sort)
	*p = s
	sortTab[s.str] = p
	return p
}

var (
	BoolSort = mkSort(Sort{Kind: KBool})
	IntSort  = mkSort(Sort{Kind: KInt})
	BV8      = BV(8)
	BV64     = BV(64)
)

func BV(n int) *Sort              { return mkSort(Sort{Kind: KBV, Width: n}) }
func ArraySort(i, e *Sort) *Sort  { return mkSort(Sort{Kind: KArray, Idx: i, Elem: e}) }
func (s *Sort) String() string    { return s.str }
func (s *Sort) IsBV() bool        { return s.Kind == KBV }
func (s *Sort) IsArray() bool     { return s.Kind == KArray }

type Term struct {
	Op    string // "var" "bound" "true" "false" "bvconst" "intconst" "uf" and SMT operator names
	Sort  *Sort
	Args  []*Term
	Name  string   // var / uf / bound name; for extract etc. the indexed op text
	Val   *big.Int // constants
	Bound []*Term  // quantifier bound variables
	Pats  [][]*Term
	ID    int
	hasBound bool    // has free (not yet quantified) bound variables
	fb       []*Term // the free bound variables
}

type termTable struct {
	mu   sync.Mutex
	tab  map[string]*Term
	next int
	ufs  map[string]*UFDecl
}

type UFDecl struct {
	Name string
	Args []*Sort
	Ret  *Sort
}

var TT = &termTable{tab: map[string]*Term{}, ufs: map[string]*UFDecl{}}

func (tt *termTable) intern(t *Term) *Term {
	var sb strings.Builder
	sb.WriteString(t.Op)
	sb.WriteByte('|')
	sb.WriteString(t.Sort.str)
	sb.WriteByte('|')
	sb.WriteString(t.Name)
	if t.Val != nil {
		sb.WriteByte('|')
		sb.WriteString(t.Val.String())
	}
	for _, a := range t.Args {
		fmt.Fprintf(&sb, ",%d", a.ID)
	}
	for _, b := range t.Bound {
		fmt.Fprintf(&sb, ";%d", b.ID)
	}
	for _, p := range t.Pats {
		sb.WriteString("/p")
		for _, x := range p {
			fmt.Fprintf(&sb, ",%d", x.ID)
		}
	}
	k := sb.String()
	tt.mu.Lock()
	defer tt.mu.Unlock()
	if x, ok := tt.tab[k]; ok {
		return x
	}
	tt.next++
	t.ID = tt.next
	// free bound variables
	if t.Op == "bound" {
		t.fb = []*Term{t}
	} else {
		seen := map[*Term]bool{}
		for _, a := range t.Args {
			for _, v := range a.fb {
				if !seen[v] {
					seen[v] = true
					t.fb = append(t.fb, v)
				}
			}
		}
		for _, p := range t.Pats {
			for _, x := range p {
				for _, v := range x.fb {
					if !seen[v] {
						seen[v] = true
						t.fb = append(t.fb, v)
					}
				}
			}
		}
		if t.Op == "forall" || t.Op == "exists" {
			var keep []*Term
			for _, v := range t.fb {
				bound := false
				for _, b := range t.Bound {
					if b == v {
						bound = true
					}
				}
				if !bound {
					keep = append(keep, v)
				}
			}
			t.fb = keep
		}
	}
	t.hasBound = len(t.fb) > 0
	tt.tab[k] = t
	return t
}

// Watermark returns the id below which every existing term lies.
func Watermark() int {
	TT.mu.Lock()
	defer TT.mu.Unlock()
	return TT.next
}

var freshCounter int
var freshMu sync.Mutex

func FreshName(prefix string) string {
	freshMu.Lock()
	defer freshMu.Unlock()
	freshCounter++
	return fmt.Sprintf("%s!%d", sanitize(prefix), freshCounter)
}

func sanitize(s string) string {
	var sb strings.Builder
	for _, r := range s {
		switch {
		case r >= 'a' && r <= 'z', r >= 'A' && r <= 'Z', r >= '0' && r <= '9', r == '_', r == '.', r == '!', r == '$':
			sb.WriteRune(r)
		default:
			sb.WriteByte('_')
		}
	}
	return sb.String()
}

func Var(name string, s *Sort) *Term   { return TT.intern(&Term{Op: "var", Sort: s, Name: sanitize(name)}) }
func FreshVar(p string, s *Sort) *Term { return Var(FreshName(p), s) }
func BoundVar(name string, s *Sort) *Term {
	return TT.intern(&Term{Op: "bound", Sort: s, Name: sanitize(name)})
}

var (
	True  = TT.intern(&Term{Op: "true", Sort: BoolSort})
	False = TT.intern(&Term{Op: "false", Sort: BoolSort})
)

func BoolT(b bool) *Term {
	if b {
		return True
	}
	return False
}

func mask(w int) *big.Int {
	m := new(big.Int).Lsh(big.NewInt(1), uint(w))
	return m.Sub(m, big.NewInt(1))
}

func BVConstBig(v *big.Int, w int) *Term {
	x := new(big.Int).And(v, mask(w)) // And on negative big.Int uses two's complement semantics
	return TT.intern(&Term{Op: "bvconst", Sort: BV(w), Val: x})
}
func BVConst(v int64, w int) *Term   { return BVConstBig(big.NewInt(v), w) }
func BVConstU(v uint64, w int) *Term { return BVConstBig(new(big.Int).SetUint64(v), w) }
func IntConst(v int64) *Term {
	return TT.intern(&Term{Op: "intconst", Sort: IntSort, Val: big.NewInt(v)})
}

func (t *Term) IsConst() bool { return t.Op == "bvconst" || t.Op == "intconst" || t.Op == "true" || t.Op == "false" }
func (t *Term) IsTrue() bool  { return t == True }
func (t *Term) IsFalse() bool { return t == False }

// Signed value of a bvconst.
func (t *Term) Signed() *big.Int {
	v := new(big.Int).Set(t.Val)
	if t.Op == "bvconst" && v.Bit(t.Sort.Width-1) == 1 {
		v.Sub(v, new(big.Int).Lsh(big.NewInt(1), uint(t.Sort.Width)))
	}
	return v
}

func mk(op string, s *Sort, args ...*Term) *Term {
	return TT.intern(&Term{Op: op, Sort: s, Args: args})
}

func UF(name string, ret *Sort, args ...*Term) *Term {
	name = sanitize(name)
	TT.mu.Lock()
	if _, ok := TT.ufs[name]; !ok {
		d := &UFDecl{Name: name, Ret: ret}
		for _, a := range args {
			d.Args = append(d.Args, a.Sort)
		}
		TT.ufs[name] = d
	}
	TT.mu.Unlock()
	if len(args) == 0 {
		return Var(name, ret)
	}
	return TT.intern(&Term{Op: "uf", Sort: ret, Name: name, Args: args})
}

func Not(a *Term) *Term {
	switch {
	case a == True:
		return False
	case a == False:
		return True
	case a.Op == "not":
		return a.Args[0]
	}
	return mk("not", BoolSort, a)
}

func And(xs ...*Term) *Term {
	var out []*Term
	seen := map[int]bool{}
	var add func(x *Term) bool
	add = func(x *Term) bool {
		if x == False {
			return false
		}
		if x == True || seen[x.ID] {
			return true
		}
		if x.Op == "and" {
			for _, y := range x.Args {
				if !add(y) {
					return false
				}
			}
			return true
		}
		seen[x.ID] = true
		out = append(out, x)
		return true
	}
	for _, x := range xs {
		if !add(x) {
			return False
		}
	}
	for _, x := range out {
		if x.Op == "not" && seen[x.Args[0].ID] {
			return False
		}
	}
	switch len(out) {
	case 0:
		return True
	case 1:
		return out[0]
	}
	return mk("and", BoolSort, out...)
}

func Or(xs ...*Term) *Term {
	var out []*Term
	seen := map[int]bool{}
	for _, x := range xs {
		if x == True {
			return True
		}
		if x == False || seen[x.ID] {
			continue
		}
		if x.Op == "or" {
			for _, y := range x.Args {
				if !seen[y.ID] {
					seen[y.ID] = true
					out = append(out, y)
				}
			}
			continue
		}
		seen[x.ID] = true
		out = append(out, x)
	}
	for _, x := range out {
		if x.Op == "not" && seen[x.Args[0].ID] {
			return True
		}
	}
	switch len(out) {
	case 0:
		return False
	case 1:
		return out[0]
	}
	return mk("or", BoolSort, out...)
}

func Implies(a, b *Term) *Term {
	if a == True {
		return b
	}
	if a == False || b == True {
		return True
	}
	if b == False {
		return Not(a)
	}
	return mk("=>", BoolSort, a, b)
}

func Eq(a, b *Term) *Term {
	if a == b {
		return True
	}
	if a.Sort != b.Sort {
		panic(fmt.Sprintf("Eq sort mismatch %s vs %s (%s / %s)", a.Sort, b.Sort, a, b))
	}
	if a.IsConst() && b.IsConst() {
		if a.Sort == BoolSort {
			return BoolT(a == b)
		}
		return BoolT(a.Val.Cmp(b.Val) == 0)
	}
	if a.Sort == BoolSort {
		if a == True {
			return b
		}
		if b == True {
			return a
		}
		if a == False {
			return Not(b)
		}
		if b == False {
			return Not(a)
		}
	}
	// x + c1 == x + c2
	if a.Sort.IsBV() {
		ba, ca := splitOffset(a)
		bb, cb := splitOffset(b)
		if ba == bb && ba != nil {
			return BoolT(ca.Cmp(cb) == 0)
		}
	}
	if a.ID > b.ID {
		a, b = b, a
	}
	return mk("=", BoolSort, a, b)
}

func Ite(c, a, b *Term) *Term {
	if c == True {
		return a
	}
	if c == False {
		return b
	}
	if a == b {
		return a
	}
	if a.Sort != b.Sort {
		panic(fmt.Sprintf("Ite sort mismatch %s vs %s", a.Sort, b.Sort))
	}
	if a.Sort == BoolSort {
		if a == True && b == False {
			return c
		}
		if a == False && b == True {
			return Not(c)
		}
	}
	return mk("ite", a.Sort, c, a, b)
}

// splitOffset decomposes a BV term into base + constant (base may be nil for a pure constant).
func splitOffset(t *Term) (*Term, *big.Int) {
	if t.Op == "bvconst" {
		return nil, t.Val
	}
	if t.Op == "bvadd" && len(t.Args) == 2 {
		if t.Args[1].Op == "bvconst" {
			return t.Args[0], t.Args[1].Val
		}
		if t.Args[0].Op == "bvconst" {
			return t.Args[1], t.Args[0].Val
		}
	}
	return t, big.NewInt(0)
}

func bvFold(op string, a, b *Term) *Term {
	w := a.Sort.Width
	x, y := a.Val, b.Val
	sx, sy := a.Signed(), b.Signed()
	r := new(big.Int)
	switch op {
	case "bvadd":
		r.Add(x, y)
	case "bvsub":
		r.Sub(x, y)
	case "bvmul":
		r.Mul(x, y)
	case "bvand":
		r.And(x, y)
	case "bvor":
		r.Or(x, y)
	case "bvxor":
		r.Xor(x, y)
	case "bvudiv":
		if y.Sign() == 0 {
			return nil
		}
		r.Div(x, y)
	case "bvurem":
		if y.Sign() == 0 {
			return nil
		}
		r.Mod(x, y)
	case "bvsdiv":
		if sy.Sign() == 0 {
			return nil
		}
		r.Quo(sx, sy)
	case "bvsrem":
		if sy.Sign() == 0 {
			return nil
		}
		r.Rem(sx, sy)
	case "bvshl":
		if y.Cmp(big.NewInt(int64(w))) >= 0 {
			r.SetInt64(0)
		} else {
			r.Lsh(x, uint(y.Uint64()))
		}
	case "bvlshr":
		if y.Cmp(big.NewInt(int64(w))) >= 0 {
			r.SetInt64(0)
		} else {
			r.Rsh(x, uint(y.Uint64()))
		}
	case "bvashr":
		if y.Cmp(big.NewInt(int64(w))) >= 0 {
			if sx.Sign() < 0 {
				r.SetInt64(-1)
			}
		} else {
			r.Rsh(sx, uint(y.Uint64()))
		}
	default:
		return nil
	}
	return BVConstBig(r, w)
}

func BVBin(op string, a, b *Term) *Term {
	if a.Sort != b.Sort {
		panic(fmt.Sprintf("%s sort mismatch %s vs %s: %s / %s", op, a.Sort, b.Sort, a, b))
	}
	w := a.Sort.Width
	if a.Op == "bvconst" && b.Op == "bvconst" {
		if r := bvFold(op, a, b); r != nil {
			return r
		}
	}
	zero := func(t *Term) bool { return t.Op == "bvconst" && t.Val.Sign() == 0 }
	switch op {
	case "bvadd":
		if zero(a) {
			return b
		}
		if zero(b) {
			return a
		}
		// normalise (x + c1) + c2 and constant on the right
		if a.Op == "bvconst" {
			a, b = b, a
		}
		if b.Op == "bvconst" {
			if base, c := splitOffset(a); base != nil && base != a {
				return BVBin("bvadd", base, BVConstBig(new(big.Int).Add(c, b.Val), w))
			}
		}
	case "bvsub":
		if zero(b) {
			return a
		}
		if a == b {
			return BVConst(0, w)
		}
		if b.Op == "bvconst" {
			return BVBin("bvadd", a, BVConstBig(new(big.Int).Neg(b.Val), w))
		}
		// (x + c) - x
		if base, c := splitOffset(a); base == b {
			return BVConstBig(c, w)
		}
		ba, ca := splitOffset(a)
		bb, cb := splitOffset(b)
		if ba != nil && ba == bb {
			return BVConstBig(new(big.Int).Sub(ca, cb), w)
		}
	case "bvmul":
		if zero(a) || zero(b) {
			return BVConst(0, w)
		}
		if a.Op == "bvconst" && a.Val.Cmp(big.NewInt(1)) == 0 {
			return b
		}
		if b.Op == "bvconst" && b.Val.Cmp(big.NewInt(1)) == 0 {
			return a
		}
	case "bvand":
		if zero(a) || zero(b) {
			return BVConst(0, w)
		}
		if a == b {
			return a
		}
	case "bvor", "bvxor":
		if zero(a) {
			return b
		}
		if zero(b) {
			return a
		}
	case "bvshl", "bvlshr", "bvashr":
		if zero(b) {
			return a
		}
	}
	return mk(op, a.Sort, a, b)
}

func BVNot(a *Term) *Term {
	if a.Op == "bvconst" {
		return BVConstBig(new(big.Int).Not(a.Val), a.Sort.Width)
	}
	return mk("bvnot", a.Sort, a)
}
func BVNeg(a *Term) *Term {
	if a.Op == "bvconst" {
		return BVConstBig(new(big.Int).Neg(a.Val), a.Sort.Width)
	}
	return mk("bvneg", a.Sort, a)
}

func BVCmp(op string, a, b *Term) *Term {
	if a.Sort != b.Sort {
		panic(fmt.Sprintf("%s sort mismatch %s vs %s: %s / %s", op, a.Sort, b.Sort, a, b))
	}
	if a.Op == "bvconst" && b.Op == "bvconst" {
		var c int
		if op[2] == 's' {
			c = a.Signed().Cmp(b.Signed())
		} else {
			c = a.Val.Cmp(b.Val)
		}
		switch op[3:] {
		case "lt":
			return BoolT(c < 0)
		case "le":
			return BoolT(c <= 0)
		case "gt":
			return BoolT(c > 0)
		case "ge":
			return BoolT(c >= 0)
		}
	}
	if a == b {
		switch op[3:] {
		case "lt", "gt":
			return False
		default:
			return True
		}
	}
	// unsigned comparisons against zero
	if op == "bvuge" && b.Op == "bvconst" && b.Val.Sign() == 0 {
		return True
	}
	if op == "bvult" && b.Op == "bvconst" && b.Val.Sign() == 0 {
		return False
	}
	return mk(op, BoolSort, a, b)
}

func Extract(hi, lo int, a *Term) *Term {
	w := hi - lo + 1
	if lo == 0 && w == a.Sort.Width {
		return a
	}
	if a.Op == "bvconst" {
		return BVConstBig(new(big.Int).Rsh(a.Val, uint(lo)), w)
	}
	// extract of zero_extend / sign_extend back to the original width
	if (a.Op == "zero_extend" || a.Op == "sign_extend") && lo == 0 {
		in := a.Args[0]
		if w == in.Sort.Width {
			return in
		}
		if w < in.Sort.Width {
			return Extract(hi, lo, in)
		}
	}
	return TT.intern(&Term{Op: "extract", Sort: BV(w), Args: []*Term{a}, Name: fmt.Sprintf("(_ extract %d %d)", hi, lo)})
}

func ZeroExt(a *Term, to int) *Term {
	k := to - a.Sort.Width
	if k == 0 {
		return a
	}
	if k < 0 {
		return Extract(to-1, 0, a)
	}
	if a.Op == "bvconst" {
		return BVConstBig(a.Val, to)
	}
	return TT.intern(&Term{Op: "zero_extend", Sort: BV(to), Args: []*Term{a}, Name: fmt.Sprintf("(_ zero_extend %d)", k)})
}

func SignExt(a *Term, to int) *Term {
	k := to - a.Sort.Width
	if k == 0 {
		return a
	}
	if k < 0 {
		return Extract(to-1, 0, a)
	}
	if a.Op == "bvconst" {
		return BVConstBig(a.Signed(), to)
	}
	return TT.intern(&Term{Op: "sign_extend", Sort: BV(to), Args: []*Term{a}, Name: fmt.Sprintf("(_ sign_extend %d)", k)})
}

func Concat(a, b *Term) *Term {
	w := a.Sort.Width + b.Sort.Width
	if a.Op == "bvconst" && b.Op == "bvconst" {
		v := new(big.Int).Lsh(a.Val, uint(b.Sort.Width))
		v.Or(v, b.Val)
		return BVConstBig(v, w)
	}
	return mk("concat", BV(w), a, b)
}

// definitelyDistinct reports whether two index terms can be shown unequal syntactically.
func definitelyDistinct(i, j *Term) bool {
	if i == j {
		return false
	}
	if i.Op == "ite" {
		return definitelyDistinct(i.Args[1], j) && definitelyDistinct(i.Args[2], j)
	}
	if j.Op == "ite" {
		return definitelyDistinct(i, j.Args[1]) && definitelyDistinct(i, j.Args[2])
	}
	if i.IsConst() && j.IsConst() {
		return i.Val.Cmp(j.Val) != 0
	}
	if i.Sort.IsBV() {
		bi, ci := splitOffset(i)
		bj, cj := splitOffset(j)
		if bi == bj && ci.Cmp(cj) != 0 {
			return true
		}
	}
	return false
}

func Select(a, i *Term) *Term {
	if a.Sort.Kind != KArray {
		panic("select on non-array " + a.String())
	}
	if i.Sort != a.Sort.Idx {
		panic(fmt.Sprintf("select index sort %s on %s", i.Sort, a.Sort))
	}
	cur := a
	for cur.Op == "store" {
		if cur.Args[1] == i {
			return cur.Args[2]
		}
		if definitelyDistinct(cur.Args[1], i) {
			cur = cur.Args[0]
			continue
		}
		break
	}
	if cur.Op == "constarr" {
		return cur.Args[0]
	}
	return mk("select", a.Sort.Elem, cur, i)
}

func Store(a, i, v *Term) *Term {
	if a.Sort.Kind != KArray || i.Sort != a.Sort.Idx || v.Sort != a.Sort.Elem {
		panic(fmt.Sprintf("store sorts: %s [%s] := %s", a.Sort, i.Sort, v.Sort))
	}
	if a.Op == "store" && a.Args[1] == i {
		return Store(a.Args[0], i, v)
	}
	if v.Op == "select" && v.Args[0] == a && v.Args[1] == i {
		return a
	}
	return mk("store", a.Sort, a, i, v)
}

func ConstArray(s *Sort, v *Term) *Term {
	return TT.intern(&Term{Op: "constarr", Sort: s, Args: []*Term{v}})
}

func containsOp(t *Term, op string, seen map[*Term]bool) bool {
	if seen[t] {
		return false
	}
	seen[t] = true
	if t.Op == op {
		return true
	}
	for _, a := range t.Args {
		if containsOp(a, op, seen) {
			return true
		}
	}
	return false
}

func Forall(bound []*Term, body *Term, pats ...[]*Term) *Term {
	if body == True {
		return True
	}
	if !mentionsAny(body, bound) {
		return body
	}
	// 'if' cannot be used in patterns
	var ok [][]*Term
	for _, p := range pats {
		bad := false
		for _, x := range p {
			if containsOp(x, "ite", map[*Term]bool{}) || !x.hasBound {
				bad = true
			}
		}
		if !bad {
			ok = append(ok, p)
		}
	}
	pats = ok
	return TT.intern(&Term{Op: "forall", Sort: BoolSort, Args: []*Term{body}, Bound: bound, Pats: pats})
}
func mentionsAny(t *Term, bound []*Term) bool {
	for _, v := range t.fb {
		for _, b := range bound {
			if v == b {
				return true
			}
		}
	}
	return false
}

func Exists(bound []*Term, body *Term) *Term {
	if body == False {
		return False
	}
	if !mentionsAny(body, bound) {
		return body
	}
	return TT.intern(&Term{Op: "exists", Sort: BoolSort, Args: []*Term{body}, Bound: bound})
}

func IntBin(op string, a, b *Term) *Term {
	if a.Op == "intconst" && b.Op == "intconst" {
		r := new(big.Int)
		switch op {
		case "+":
			return IntConstBig(r.Add(a.Val, b.Val))
		case "-":
			return IntConstBig(r.Sub(a.Val, b.Val))
		case "*":
			return IntConstBig(r.Mul(a.Val, b.Val))
		}
	}
	return mk(op, IntSort, a, b)
}
func IntConstBig(v *big.Int) *Term {
	return TT.intern(&Term{Op: "intconst", Sort: IntSort, Val: new(big.Int).Set(v)})
}
func IntCmp(op string, a, b *Term) *Term {
	if a.Op == "intconst" && b.Op == "intconst" {
		c := a.Val.Cmp(b.Val)
		switch op {
		case "<":
			return BoolT(c < 0)
		case "<=":
			return BoolT(c <= 0)
		case ">":
			return BoolT(c > 0)
		case ">=":
			return BoolT(c >= 0)
		}
	}
	return mk(op, BoolSort, a, b)
}

// Subst replaces terms (by identity) bottom-up.
func Subst(t *Term, m map[*Term]*Term) *Term {
	cache := map[*Term]*Term{}
	var rec func(t *Term) *Term
	rec = func(t *Term) *Term {
		if r, ok := m[t]; ok {
			return r
		}
		if len(t.Args) == 0 {
			return t
		}
		if r, ok := cache[t]; ok {
			return r
		}
		changed := false
		args := make([]*Term, len(t.Args))
		for i, a := range t.Args {
			args[i] = rec(a)
			if args[i] != a {
				changed = true
			}
		}
		r := t
		if changed {
			r = rebuild(t, args)
		}
		cache[t] = r
		return r
	}
	return rec(t)
}

func rebuild(t *Term, args []*Term) *Term {
	switch t.Op {
	case "not":
		return Not(args[0])
	case "and":
		return And(args...)
	case "or":
		return Or(args...)
	case "=>":
		return Implies(args[0], args[1])
	case "=":
		return Eq(args[0], args[1])
	case "ite":
		return Ite(args[0], args[1], args[2])
	case "select":
		return Select(args[0], args[1])
	case "store":
		return Store(args[0], args[1], args[2])
	case "bvadd", "bvsub", "bvmul", "bvand", "bvor", "bvxor", "bvudiv", "bvurem", "bvsdiv", "bvsrem", "bvshl", "bvlshr", "bvashr":
		return BVBin(t.Op, args[0], args[1])
	case "bvult", "bvule", "bvugt", "bvuge", "bvslt", "bvsle", "bvsgt", "bvsge":
		return BVCmp(t.Op, args[0], args[1])
	case "bvnot":
		return BVNot(args[0])
	case "bvneg":
		return BVNeg(args[0])
	case "extract":
		var hi, lo int
		fmt.Sscanf(t.Name, "(_ extract %d %d)", &hi, &lo)
		return Extract(hi, lo, args[0])
	case "zero_extend":
		return ZeroExt(args[0], t.Sort.Width)
	case "sign_extend":
		return SignExt(args[0], t.Sort.Width)
	case "concat":
		return Concat(args[0], args[1])
	case "forall":
		return Forall(t.Bound, args[0], t.Pats...)
	case "exists":
		return Exists(t.Bound, args[0])
	}
	n := *t
	n.Args = args
	n.ID = 0
	n.hasBound = false
	return TT.intern(&n)
}

func bvLit(t *Term) string {
	w := t.Sort.Width
	if w%4 == 0 {
		s := t.Val.Text(16)
		return "#x" + strings.Repeat("0", w/4-len(s)) + s
	}
	s := t.Val.Text(2)
	return "#b" + strings.Repeat("0", w-len(s)) + s
}

func (t *Term) String() string {
	var sb strings.Builder
	t.write(&sb, nil)
	s := sb.String()
	return s
}

func (t *Term) write(sb *strings.Builder, names map[*Term]string) {
	if names != nil {
		if n, ok := names[t]; ok {
			sb.WriteString(n)
			return
		}
	}
	switch t.Op {
	case "var", "bound":
		sb.WriteString(t.Name)
	case "true", "false":
		sb.WriteString(t.Op)
	case "bvconst":
		sb.WriteString(bvLit(t))
	case "intconst":
		if t.Val.Sign() < 0 {
			sb.WriteString("(- " + new(big.Int).Neg(t.Val).String() + ")")
		} else {
			sb.WriteString(t.Val.String())
		}
	case "constarr":
		fmt.Fprintf(sb, "((as const %s) ", t.Sort)
		t.Args[0].write(sb, names)
		sb.WriteByte(')')
	case "forall", "exists":
		sb.WriteString("(" + t.Op + " (")
		for _, b := range t.Bound {
			fmt.Fprintf(sb, "(%s %s)", b.Name, b.Sort)
		}
		sb.WriteString(") ")
		if len(t.Pats) > 0 {
			sb.WriteString("(! ")
		}
		t.Args[0].write(sb, names)
		for _, p := range t.Pats {
			sb.WriteString(" :pattern (")
			for i, x := range p {
				if i > 0 {
					sb.WriteByte(' ')
				}
				x.write(sb, names)
			}
			sb.WriteString(")")
		}
		if len(t.Pats) > 0 {
			sb.WriteString(")")
		}
		sb.WriteString(")")
	default:
		op := t.Op
		if op == "uf" || op == "extract" || op == "zero_extend" || op == "sign_extend" {
			op = t.Name
		}
		sb.WriteString("(" + op)
		for _, a := range t.Args {
			sb.WriteByte(' ')
			a.write(sb, names)
		}
		sb.WriteByte(')')
	}
}

// Script renders a satisfiability query for the conjunction of the assertions.
// Shared closed subterms are lifted into define-fun's to keep the text linear in the DAG size.
func Script(asserts []*Term, opts ScriptOpts) string {
	refs := map[*Term]int{}
	var order []*Term
	seen := map[*Term]bool{}
	var walk func(t *Term)
	walk = func(t *Term) {
		refs[t]++
		if seen[t] {
			return
		}
		seen[t] = true
		for _, a := range t.Args {
			walk(a)
		}
		for _, p := range t.Pats {
			for _, x := range p {
				walk(x)
			}
		}
		order = append(order, t)
	}
	for _, a := range asserts {
		walk(a)
	}
	for _, a := range opts.NamedValues {
		walk(a)
	}
	for _, a := range opts.GetValues {
		walk(a)
	}
	var sb strings.Builder
	if opts.Cvc5 {
		sb.WriteString("(set-option :produce-models true)\n(set-logic ALL)\n")
	} else {
		sb.WriteString("(set-option :produce-models true)\n")
	}
	// declarations
	vars := map[string]*Sort{}
	ufs := map[string]bool{}
	for _, t := range order {
		switch t.Op {
		case "var":
			vars[t.Name] = t.Sort
		case "uf":
			ufs[t.Name] = true
		}
	}
	var vn []string
	for n := range vars {
		vn = append(vn, n)
	}
	sort.Strings(vn)
	for _, n := range vn {
		fmt.Fprintf(&sb, "(declare-fun %s () %s)\n", n, vars[n])
	}
	var un []string
	for n := range ufs {
		un = append(un, n)
	}
	sort.Strings(un)
	for _, n := range un {
		TT.mu.Lock()
		d := TT.ufs[n]
		TT.mu.Unlock()
		var as []string
		for _, a := range d.Args {
			as = append(as, a.String())
		}
		fmt.Fprintf(&sb, "(declare-fun %s (%s) %s)\n", n, strings.Join(as, " "), d.Ret)
	}
	names := map[*Term]string{}
	k := 0
	for _, t := range order {
		if len(t.Args) == 0 || t.hasBound || refs[t] < 2 {
			continue
		}
		var b strings.Builder
		t.write(&b, names)
		k++
		n := fmt.Sprintf("$t%d", k)
		fmt.Fprintf(&sb, "(define-fun %s () %s %s)\n", n, t.Sort, b.String())
		names[t] = n
	}
	for _, a := range asserts {
		var b strings.Builder
		a.write(&b, names)
		fmt.Fprintf(&sb, "(assert %s)\n", b.String())
	}
	for i, v := range opts.NamedValues {
		var b strings.Builder
		v.write(&b, names)
		fmt.Fprintf(&sb, "(define-fun mv!%d () %s %s)\n", i, v.Sort, b.String())
	}
	sb.WriteString("(check-sat)\n")
	if len(opts.NamedValues) > 0 {
		sb.WriteString("(get-value (")
		for i := range opts.NamedValues {
			fmt.Fprintf(&sb, "mv!%d ", i)
		}
		sb.WriteString("))\n")
	}
	if len(opts.GetValues) > 0 {
		sb.WriteString("(get-value (")
		for _, v := range opts.GetValues {
			var b strings.Builder
			v.write(&b, names)
			sb.WriteString(b.String() + " ")
		}
		sb.WriteString("))\n")
	}
	return sb.String()
}

type ScriptOpts struct {
	Cvc5        bool
	GetValues   []*Term
	NamedValues []*Term
}

// Size returns the number of distinct nodes reachable from the terms.
func Size(ts ...*Term) int {
	seen := map[*Term]bool{}
	var walk func(t *Term)
	walk = func(t *Term) {
		if seen[t] {
			return
		}
		seen[t] = true
		for _, a := range t.Args {
			walk(a)
		}
	}
	for _, t := range ts {
		walk(t)
	}
	return len(seen)
}

// ---------------------------------------------------------------------------
// Named arrays: complex array-valued terms read under quantifiers are given a name (a fresh constant
// L with the definition L = A added to every query that mentions L). This keeps triggers free of
// 'ite' / 'store' and is an equisatisfiable transformation.

var arrayNames = map[*Term]*Term{}
var arrayDefs = map[*Term]*Term{}
var arrayMu sync.Mutex

func NameArray(A *Term) *Term {
	if A.Op == "var" || A.hasBound {
		return A
	}
	arrayMu.Lock()
	defer arrayMu.Unlock()
	if l, ok := arrayNames[A]; ok {
		return l
	}
	l := Var(FreshName("arr"), A.Sort)
	arrayNames[A] = l
	arrayDefs[l] = A
	return l
}

// namedDefs returns the definitions of all named arrays reachable from the assertions.
func namedDefs(asserts []*Term) []*Term {
	var out []*Term
	seen := map[*Term]bool{}
	var walk func(t *Term)
	walk = func(t *Term) {
		if seen[t] {
			return
		}
		seen[t] = true
		if t.Op == "var" {
			arrayMu.Lock()
			d, ok := arrayDefs[t]
			arrayMu.Unlock()
			if ok {
				out = append(out, Eq(t, d))
				walk(d)
			}
			return
		}
		for _, a := range t.Args {
			walk(a)
		}
	}
	for _, a := range asserts {
		walk(a)
	}
	return out
}
