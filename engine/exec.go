package main

// Forward symbolic execution of go/ssa function bodies, path by path, in continuation-passing style.

import (
	"os"
	"fmt"
	"go/ast"
	"go/constant"
	"go/token"
	"go/types"
	"math/big"
	"sort"
	"strings"

	"golang.org/x/tools/go/ssa"
)

type Case struct {
	PC   *Term
	Goal *Term
}

type Obligation struct {
	Name   string
	Kind   string
	Func   string
	Pos    string
	Text   string
	Cases  []Case
	Cover  bool // expects sat (vacuity guard)
	seq    int
	single bool
}

type Closure struct {
	Fn       *ssa.Function
	Bindings []Val
}

type Kont func(st *State, res Val, panicked bool)

type deferRec struct {
	call *ssa.CallCommon
	args []Val
	fnv  Val
	site ssa.Instruction
}

type Frame struct {
	fn        *ssa.Function
	env       map[ssa.Value]Val
	entry     *State
	params    []Val
	freevars  []Val
	defers    []*deferRec
	depth     int
	isTop     bool
	contract  *FuncContract
	measures  map[*ssa.BasicBlock][]*Term
	loopEntry map[*ssa.BasicBlock]*State
	chain     string // call-site chain for obligation keys
	loops     *loopInfo
	id        int
	parent    *Frame
	names     map[string]ssa.Value
}

func (fr *Frame) fork() *Frame {
	n := *fr
	n.env = make(map[ssa.Value]Val, len(fr.env)+8)
	for k, v := range fr.env {
		n.env[k] = v
	}
	n.defers = append([]*deferRec(nil), fr.defers...)
	n.measures = map[*ssa.BasicBlock][]*Term{}
	for k, v := range fr.measures {
		n.measures[k] = v
	}
	n.loopEntry = map[*ssa.BasicBlock]*State{}
	for k, v := range fr.loopEntry {
		n.loopEntry[k] = v
	}
	n.names = make(map[string]ssa.Value, len(fr.names))
	for k, v := range fr.names {
		n.names[k] = v
	}
	return &n
}

type loopInfo struct {
	headers []*ssa.BasicBlock
	ordinal map[*ssa.BasicBlock]int
	body    map[*ssa.BasicBlock]map[*ssa.BasicBlock]bool
}

type Exec struct {
	prog       *ssa.Program
	fset       *token.FileSet
	cs         *ContractSet
	top        *ssa.Function
	obls       map[string]*Obligation
	oblOrder   []*Obligation
	nameCount  map[string]int
	closures   map[int]*Closure
	fnIDs      map[*ssa.Function]int
	globals    map[*ssa.Global]int
	paths      int
	pathCap    int
	aborted    string
	notes      map[string]bool
	frameSeq   int
	loopCache  map[*ssa.Function]*loopInfo
	assumptions map[string]bool
	inlined    map[string]bool
	topParams  map[string]Val
	maxDepth   int
	modulePath string
	selfVal    *Val
	topFrame   *Frame
	topEnvVars map[string]Val
	interior   map[*Term][]*LVal
	tupleLV    map[*Term]*LVal
	modelSeq   int
	tapeMode   bool
	regIdx     *regIndex
	regTried   bool
	loaded     *Loaded
}

func newExec(prog *ssa.Program, fset *token.FileSet, cs *ContractSet) *Exec {
	return &Exec{prog: prog, fset: fset, cs: cs, obls: map[string]*Obligation{}, nameCount: map[string]int{},
		closures: map[int]*Closure{}, fnIDs: map[*ssa.Function]int{}, globals: map[*ssa.Global]int{},
		pathCap: 6000, notes: map[string]bool{}, loopCache: map[*ssa.Function]*loopInfo{},
		assumptions: map[string]bool{}, inlined: map[string]bool{}, topParams: map[string]Val{}, maxDepth: 8,
		interior: map[*Term][]*LVal{}, tupleLV: map[*Term]*LVal{},
		modulePath: "github.com/ovh/kmip-go"}
}

func (x *Exec) note(format string, a ...any) { x.notes[fmt.Sprintf(format, a...)] = true }
func (x *Exec) assumeNote(s string)          { x.assumptions[s] = true }

func (x *Exec) posOf(p token.Pos) string {
	if !p.IsValid() {
		return ""
	}
	pp := x.fset.Position(p)
	f := pp.Filename
	if rd := repoDir() + "/"; strings.HasPrefix(f, rd) {
		f = f[len(rd):]
	} else if i := strings.Index(f, "/src/"); i >= 0 && strings.Contains(f, "/toolchain@") {
		f = "GOROOT" + f[i:]
	}
	return fmt.Sprintf("%s:%d", f, pp.Line)
}

// oblige records one case of an obligation identified by (call chain, site, kind, target, extra).
func (x *Exec) oblige(fr *Frame, st *State, kind, target string, pos token.Pos, goal *Term, text string) {
	if st.dry != nil {
		return
	}
	if goal.Op == "and" && (kind == "post" || kind == "inv-step" || kind == "inv-entry" || kind == "pre") && len(goal.Args) <= 40 {
		for i, g := range goal.Args {
			x.oblige(fr, st, kind, target, pos, g, fmt.Sprintf("%s /%d", text, i))
		}
		return
	}
	if goal.Op == "=>" && goal.Args[1].Op == "and" && (kind == "post" || kind == "inv-step" || kind == "inv-entry" || kind == "pre") && len(goal.Args[1].Args) <= 40 {
		for i, g := range goal.Args[1].Args {
			x.oblige(fr, st, kind, target, pos, Implies(goal.Args[0], g), fmt.Sprintf("%s /%d", text, i))
		}
		return
	}
	if goal == True || st.infeasible() {
		return
	}
	key := fmt.Sprintf("%s|%s|%s|%d|%s", fr.chain, kind, target, pos, text)
	ob, ok := x.obls[key]
	if !ok {
		base := fmt.Sprintf("%s#%s", funcName(x.top), kind)
		if target != "" {
			base += "@" + target
		}
		if text != "" {
			base += ":" + text
		}
		n := x.nameCount[base]
		x.nameCount[base] = n + 1
		name := base
		if n > 0 {
			name = fmt.Sprintf("%s~%d", base, n)
		}
		ob = &Obligation{Name: name, Kind: kind, Func: funcName(x.top), Pos: x.posOf(pos), Text: text, seq: len(x.oblOrder)}
		x.obls[key] = ob
		x.oblOrder = append(x.oblOrder, ob)
	}
	ob.Cases = append(ob.Cases, Case{PC: st.PC(), Goal: goal})
}

func funcName(fn *ssa.Function) string {
	s := fn.String()
	// strip the module prefix for readability
	s = strings.ReplaceAll(s, "github.com/ovh/kmip-go/", "")
	s = strings.ReplaceAll(s, "github.com/ovh/kmip-go.", "kmip.")
	return s
}

// ---------------------------------------------------------------------------
// loops

func (x *Exec) loopsOf(fn *ssa.Function) *loopInfo {
	if li, ok := x.loopCache[fn]; ok {
		return li
	}
	li := &loopInfo{ordinal: map[*ssa.BasicBlock]int{}, body: map[*ssa.BasicBlock]map[*ssa.BasicBlock]bool{}}
	for _, b := range fn.Blocks {
		for _, p := range b.Preds {
			if b.Dominates(p) {
				if li.body[b] == nil {
					li.body[b] = map[*ssa.BasicBlock]bool{b: true}
					li.headers = append(li.headers, b)
				}
				// natural loop of back edge p -> b
				var stack []*ssa.BasicBlock
				if !li.body[b][p] {
					li.body[b][p] = true
					stack = append(stack, p)
				}
				for len(stack) > 0 {
					n := stack[len(stack)-1]
					stack = stack[:len(stack)-1]
					for _, q := range n.Preds {
						if !li.body[b][q] {
							li.body[b][q] = true
							stack = append(stack, q)
						}
					}
				}
			}
		}
	}
	sort.Slice(li.headers, func(i, j int) bool { return li.headers[i].Index < li.headers[j].Index })
	for i, h := range li.headers {
		li.ordinal[h] = i
	}
	x.loopCache[fn] = li
	return li
}

// ---------------------------------------------------------------------------
// values

func (x *Exec) constVal(c *ssa.Const) Val {
	t := c.Type()
	if c.Value == nil {
		return zeroVal(t)
	}
	switch u := t.Underlying().(type) {
	case *types.Basic:
		switch {
		case u.Info()&types.IsBoolean != 0:
			return Val{T: t, C: []*Term{BoolT(constant.BoolVal(c.Value))}}
		case u.Info()&types.IsInteger != 0:
			w, _, _ := intWidth(u)
			bi, ok := constantBig(c.Value)
			if !ok {
				bi = big.NewInt(0)
			}
			return Val{T: t, C: []*Term{BVConstBig(bi, w)}}
		case u.Info()&types.IsString != 0:
			return strVal(t, constant.StringVal(c.Value))
		case u.Info()&types.IsFloat != 0:
			f, _ := constant.Float64Val(c.Value)
			return Val{T: t, C: []*Term{UF(fmt.Sprintf("fconst_%x", uint64(int64(f*1000))), BV64)}}
		}
	}
	return zeroVal(t)
}

func constantBig(v constant.Value) (*big.Int, bool) {
	v = constant.ToInt(v)
	if v.Kind() != constant.Int {
		return nil, false
	}
	if i, ok := constant.Int64Val(v); ok {
		return big.NewInt(i), true
	}
	bi, ok := new(big.Int).SetString(v.ExactString(), 10)
	return bi, ok
}

func (x *Exec) fnValue(fn *ssa.Function) Val {
	id, ok := x.fnIDs[fn]
	if !ok {
		id = 3000000 + len(x.closures)
		x.fnIDs[fn] = id
		x.closures[id] = &Closure{Fn: fn}
	}
	return Val{T: fn.Signature, C: []*Term{IntConst(int64(id))}}
}

func (x *Exec) globalRef(g *ssa.Global) *Term {
	id, ok := x.globals[g]
	if !ok {
		id = 2000000 + len(x.globals)
		x.globals[g] = id
	}
	return IntConst(int64(id))
}

func (x *Exec) get(fr *Frame, v ssa.Value) Val {
	switch c := v.(type) {
	case *ssa.Const:
		return x.constVal(c)
	case *ssa.Function:
		return x.fnValue(c)
	case *ssa.Global:
		return Val{T: c.Type(), C: []*Term{x.globalRef(c)}}
	case *ssa.Builtin:
		return Val{T: c.Type(), C: []*Term{IntConst(0)}}
	}
	if r, ok := fr.env[v]; ok {
		return r
	}
	panic(fmt.Sprintf("no value for %s (%T) in %s", v.Name(), v, fr.fn))
}

// assumeWF adds the well-formedness facts of a freshly introduced value.
func (x *Exec) assumeWF(st *State, v Val) {
	var rec func(t types.Type, c []*Term, depth int)
	rec = func(t types.Type, c []*Term, depth int) {
		switch u := t.Underlying().(type) {
		case *types.Slice:
			arr, off, ln, cp := c[0], c[1], c[2], c[3]
			if arr.IsConst() && ln.IsConst() && cp.IsConst() {
				return
			}
			st.assume(BVCmp("bvsle", bv64(0), off))
			st.assume(BVCmp("bvsle", bv64(0), ln))
			st.assume(BVCmp("bvsle", ln, cp))
			st.assume(BVCmp("bvsle", cp, bv64(1<<40)))
			st.assume(BVCmp("bvsle", off, bv64(1<<40)))
			st.assume(st.liveRef(arr))
			st.assume(Implies(Eq(arr, IntConst(0)), And(Eq(cp, bv64(0)), Eq(off, bv64(0)))))
		case *types.Pointer, *types.Map, *types.Chan, *types.Signature:
			if !c[0].IsConst() {
				st.assume(st.liveRef(c[0]))
			}
		case *types.Interface:
			if !c[1].IsConst() {
				st.assume(st.liveRef(c[1]))
			}
			if !c[0].IsConst() {
				st.assume(IntCmp(">=", c[0], IntConst(0)))
				st.assume(Implies(Eq(c[0], IntConst(0)), Eq(c[1], IntConst(0))))
			}
		case *types.Struct:
			if depth > 6 {
				return
			}
			off := 0
			for i := 0; i < u.NumFields(); i++ {
				n := len(layoutOf(u.Field(i).Type()))
				rec(u.Field(i).Type(), c[off:off+n], depth+1)
				off += n
			}
		case *types.Tuple:
			off := 0
			for i := 0; i < u.Len(); i++ {
				n := len(layoutOf(u.At(i).Type()))
				rec(u.At(i).Type(), c[off:off+n], depth+1)
				off += n
			}
		case *types.Basic:
			if u.Info()&types.IsString != 0 && !c[0].IsConst() {
				st.assume(BVCmp("bvsle", bv64(0), slen(c[0])))
				st.assume(BVCmp("bvsle", slen(c[0]), bv64(1<<40)))
			}
		}
	}
	rec(v.T, v.C, 0)
}

func (x *Exec) loadWF(st *State, lv *LVal) Val {
	v := st.load(lv)
	x.assumeWF(st, v)
	return v
}

// ---------------------------------------------------------------------------
// function execution

func (x *Exec) newFrame(fn *ssa.Function, args, fvs []Val, st *State, parent *Frame, site ssa.Instruction) *Frame {
	x.frameSeq++
	fr := &Frame{fn: fn, env: map[ssa.Value]Val{}, params: args, freevars: fvs, id: x.frameSeq,
		measures: map[*ssa.BasicBlock][]*Term{}, loopEntry: map[*ssa.BasicBlock]*State{}, parent: parent, names: map[string]ssa.Value{}}
	if parent != nil {
		fr.depth = parent.depth + 1
		fr.chain = parent.chain + fmt.Sprintf("/%d", site.Pos())
		if !site.Pos().IsValid() {
			fr.chain = parent.chain + fmt.Sprintf("/i%p", site)
		}
	}
	for i, p := range fn.Params {
		a := args[i]
		a.T = p.Type()
		fr.env[p] = a
	}
	for i, f := range fn.FreeVars {
		fr.env[f] = fvs[i]
	}
	fr.entry = st.clone()
	fr.loops = x.loopsOf(fn)
	fr.contract = x.cs.forFunc(fn)
	return fr
}

// execFunc runs fn's body from st; k is invoked once per terminating path.
func (x *Exec) execFunc(fr *Frame, st *State, k Kont) {
	if len(fr.fn.Blocks) == 0 {
		panic("execFunc without body: " + fr.fn.String())
	}
	x.execBlock(fr, fr.fn.Blocks[0], nil, st, k)
}

func (x *Exec) countPath() bool {
	x.paths++
	if x.paths > x.pathCap {
		if x.aborted == "" {
			x.aborted = fmt.Sprintf("path cap %d exceeded", x.pathCap)
		}
		return false
	}
	return true
}

func (x *Exec) execBlock(fr *Frame, b *ssa.BasicBlock, pred *ssa.BasicBlock, st *State, k Kont) {
	if x.aborted != "" || st.infeasible() {
		return
	}
	if st.dry != nil && st.dry.frameID == fr.id && !fr.loops.body[st.dry.header][b] {
		return // dry run of a loop body stops where the loop is left
	}
	// leaving loops: pop loop frames of this function frame whose body does not contain b
	if len(st.loopFrames) > 0 {
		var keep []*loopFrame
		for _, lf := range st.loopFrames {
			if lf.frameID == fr.id && !fr.loops.body[lf.header][b] {
				continue
			}
			keep = append(keep, lf)
		}
		st.loopFrames = keep
	}
	// phis
	nphi := 0
	var phiVals []Val
	if pred != nil {
		pi := -1
		for i, p := range b.Preds {
			if p == pred {
				pi = i
			}
		}
		for _, ins := range b.Instrs {
			phi, ok := ins.(*ssa.Phi)
			if !ok {
				break
			}
			nphi++
			v := x.get(fr, phi.Edges[pi])
			v.T = phi.Type()
			phiVals = append(phiVals, v)
		}
	}
	if body, isHeader := fr.loops.body[b]; isHeader && pred != nil {
		_ = body
		x.loopHeader(fr, b, pred, nphi, phiVals, st, k)
		return
	}
	for i := 0; i < nphi; i++ {
		fr.env[b.Instrs[i].(*ssa.Phi)] = phiVals[i]
	}
	x.execInstrs(fr, b, nphi, st, k)
}

func (x *Exec) execInstrs(fr *Frame, b *ssa.BasicBlock, idx int, st *State, k Kont) {
	for i := idx; i < len(b.Instrs); i++ {
		if x.aborted != "" || st.infeasible() {
			return
		}
		ins := b.Instrs[i]
		switch in := ins.(type) {
		case *ssa.If:
			c := x.get(fr, in.Cond).C[0]
			if c == True {
				x.execBlock(fr, b.Succs[0], b, st, k)
				return
			}
			if c == False {
				x.execBlock(fr, b.Succs[1], b, st, k)
				return
			}
			if x.tapeMode {
				// the mirror lemmas fork on many nil / zero tests that their pre-conditions decide
				switch st.decided(c) {
				case 1:
					x.execBlock(fr, b.Succs[0], b, st, k)
					return
				case -1:
					x.execBlock(fr, b.Succs[1], b, st, k)
					return
				}
			}
			if x.tapeMode && os.Getenv("GOCV_TRACE_FORKS") != "" {
				fmt.Fprintf(os.Stderr, "if-fork %s: %s\n", x.posOf(in.Pos()), c.String())
			}
			st1 := st.clone()
			st1.assume(c)
			fr1 := fr.fork()
			x.execBlock(fr1, b.Succs[0], b, st1, k)
			st.assume(Not(c))
			x.execBlock(fr, b.Succs[1], b, st, k)
			return
		case *ssa.Jump:
			x.execBlock(fr, b.Succs[0], b, st, k)
			return
		case *ssa.Return:
			var res Val
			switch len(in.Results) {
			case 0:
				res = Val{T: types.NewTuple()}
			case 1:
				res = x.get(fr, in.Results[0])
				res.T = fr.fn.Signature.Results().At(0).Type()
			default:
				var vs []Val
				for j, r := range in.Results {
					v := x.get(fr, r)
					v.T = fr.fn.Signature.Results().At(j).Type()
					vs = append(vs, v)
				}
				res = mkTuple(fr.fn.Signature.Results(), vs)
			}
			k(st, res, false)
			return
		case *ssa.Panic:
			x.doPanic(fr, st, in, k)
			return
		case *ssa.Call:
			i2 := i
			x.doCall(fr, st, in, &in.Call, func(st2 *State, res Val, panicked bool) {
				if panicked {
					x.unwind(fr.fork(), st2, k)
					return
				}
				fr2 := fr.fork()
				fr2.env[in] = res
				x.execInstrs(fr2, b, i2+1, st2, k)
			})
			return
		case *ssa.RunDefers:
			i2 := i
			x.runDefers(fr, st, func(st2 *State) {
				x.execInstrs(fr, b, i2+1, st2, k)
			})
			return
		default:
			x.step(fr, st, ins)
		}
	}
}

// forkFrameForKont: continuations invoked several times (once per callee path) must not share env.
// doCall takes care of this by forking the caller frame for every invocation but the last is unknown,
// so every invocation forks.

func (x *Exec) doPanic(fr *Frame, st *State, in *ssa.Panic, k Kont) {
	st.panicPos = x.posOf(in.Pos())
	st.panicWhat = "explicit panic"
	st.unwinding = true
	x.unwind(fr, st, k)
}

func (x *Exec) unwind(fr *Frame, st *State, k Kont) {
	st.unwinding = true
	x.runDefers(fr, st, func(st2 *State) {
		if !st2.unwinding {
			// recovered: function returns its named results (read from the Recover block)
			if fr.fn.Recover != nil {
				x.execBlock(fr, fr.fn.Recover, nil, st2, k)
				return
			}
			k(st2, zeroVal(fr.fn.Signature.Results()), false)
			return
		}
		k(st2, Val{}, true)
	})
}

func (x *Exec) runDefers(fr *Frame, st *State, cont func(st *State)) {
	if len(fr.defers) == 0 {
		cont(st)
		return
	}
	d := fr.defers[len(fr.defers)-1]
	fr.defers = fr.defers[:len(fr.defers)-1]
	x.callValue(fr, st, d.site, d.call, d.fnv, d.args, func(st2 *State, res Val, panicked bool) {
		fr2 := fr.fork()
		x.runDefers(fr2, st2, cont)
	})
}

// ---------------------------------------------------------------------------
// straight-line instructions

func (x *Exec) step(fr *Frame, st *State, ins ssa.Instruction) {
	switch in := ins.(type) {
	case *ssa.Alloc:
		ref := st.alloc()
		elem := in.Type().Underlying().(*types.Pointer).Elem()
		lv := objLVal(elem, ref)
		saveDry := st.dry
		st.store(lv, zeroVal(elem), "")
		_ = saveDry
		// allocation-time initialisation is not a write to pre-existing memory
		x.dropLastWrites(st, len(layoutOf(elem)))
		fr.env[in] = Val{T: in.Type(), C: []*Term{ref}}
	case *ssa.BinOp:
		fr.env[in] = x.binop(fr, st, in)
	case *ssa.UnOp:
		fr.env[in] = x.unop(fr, st, in)
	case *ssa.ChangeType:
		v := x.get(fr, in.X)
		v.T = in.Type()
		fr.env[in] = v
	case *ssa.ChangeInterface:
		v := x.get(fr, in.X)
		v.T = in.Type()
		fr.env[in] = v
	case *ssa.Convert:
		fr.env[in] = x.convert(fr, st, in)
	case *ssa.MultiConvert:
		fr.env[in] = freshVal(in.Type(), "mconv")
	case *ssa.MakeInterface:
		fr.env[in] = x.makeInterface(st, x.get(fr, in.X), in.X.Type(), in.Type())
	case *ssa.MakeClosure:
		fn := in.Fn.(*ssa.Function)
		var bs []Val
		for _, b := range in.Bindings {
			bs = append(bs, x.get(fr, b))
		}
		id := 3000000 + len(x.closures)
		x.closures[id] = &Closure{Fn: fn, Bindings: bs}
		fr.env[in] = Val{T: in.Type(), C: []*Term{IntConst(int64(id))}}
	case *ssa.MakeSlice:
		ln := x.get(fr, in.Len).C[0]
		cp := x.get(fr, in.Cap).C[0]
		ln, cp = toBV64(ln, in.Len.Type()), toBV64(cp, in.Cap.Type())
		x.oblige(fr, st, "neglen", "make", in.Pos(), And(BVCmp("bvsle", bv64(0), ln), BVCmp("bvsle", ln, cp)), "")
		st.assume(And(BVCmp("bvsle", bv64(0), ln), BVCmp("bvsle", ln, cp)))
		ref := st.alloc()
		et := in.Type().Underlying().(*types.Slice).Elem()
		for _, c := range layoutOf(et) {
			name := "[]" + typeKey(et) + "|" + c.Path
			h := st.heapMap(name, ArraySort(IntSort, ArraySort(BV64, c.Sort)))
			st.heap[name] = Store(h, ref, ConstArray(ArraySort(BV64, c.Sort), zeroOfSort(c.Sort)))
		}
		fr.env[in] = mkSlice(in.Type(), ref, bv64(0), ln, cp)
	case *ssa.MakeMap, *ssa.MakeChan:
		ref := st.alloc()
		fr.env[in.(ssa.Value)] = Val{T: in.(ssa.Value).Type(), C: []*Term{ref}}
	case *ssa.FieldAddr:
		p := x.get(fr, in.X)
		x.nilCheck(fr, st, p, in.Pos(), "field")
		lv := derefPtr(p)
		stt := in.X.Type().Underlying().(*types.Pointer).Elem().Underlying().(*types.Struct)
		f := stt.Field(in.Field)
		nl := &LVal{Prefix: lv.Prefix, Ref: lv.Ref, Idx: lv.Idx, Path: lv.Path + "." + f.Name(), T: f.Type()}
		fr.env[in] = Val{T: in.Type(), C: []*Term{lv.Ref}, LV: nl}
	case *ssa.Field:
		fr.env[in] = fieldVal(x.get(fr, in.X), in.Field)
	case *ssa.IndexAddr:
		fr.env[in] = x.indexAddr(fr, st, in)
	case *ssa.Index:
		fr.env[in] = x.index(fr, st, in)
	case *ssa.Slice:
		fr.env[in] = x.slice(fr, st, in)
	case *ssa.Store:
		p := x.get(fr, in.Addr)
		x.nilCheck(fr, st, p, in.Pos(), "store")
		v := x.get(fr, in.Val)
		lv := derefPtr(p)
		v = x.escapeCheck(st, v)
		if x.tapeMode && os.Getenv("GOCV_TRACE_CONTRACTS") != "" {
			fmt.Fprintf(os.Stderr, "store %s: %s ref=%s path=%s := %s\n", x.posOf(in.Pos()), lv.Prefix, lv.Ref, lv.Path, v.String())
		}
		x.checkedStore(fr, st, lv, v, in.Pos())
	case *ssa.Extract:
		fr.env[in] = tupleElem(x.get(fr, in.Tuple), in.Index)
	case *ssa.TypeAssert:
		fr.env[in] = x.typeAssert(fr, st, in)
	case *ssa.Lookup:
		fr.env[in] = x.lookup(fr, st, in)
	case *ssa.MapUpdate:
		x.note("map update not modelled (%s)", x.posOf(in.Pos()))
	case *ssa.Range:
		fr.env[in] = freshVal(in.Type(), "range")
	case *ssa.Next:
		v := freshVal(in.Type(), "next")
		x.assumeWF(st, v)
		fr.env[in] = v
	case *ssa.Select:
		v := freshVal(in.Type(), "select")
		x.assumeWF(st, v)
		n := int64(len(in.States))
		idx := v.C[0]
		lo := int64(0)
		if !in.Blocking {
			lo = -1
		}
		st.assume(And(BVCmp("bvsle", bv64(lo), idx), BVCmp("bvslt", idx, bv64(n))))
		fr.env[in] = v
	case *ssa.Send:
	case *ssa.Go:
		x.note("go statement not followed (%s)", x.posOf(in.Pos()))
	case *ssa.Defer:
		d := &deferRec{call: &in.Call, site: in}
		if !in.Call.IsInvoke() {
			d.fnv = x.calleeValue(fr, &in.Call)
		} else {
			d.fnv = x.get(fr, in.Call.Value)
		}
		for _, a := range in.Call.Args {
			d.args = append(d.args, x.get(fr, a))
		}
		fr.defers = append(fr.defers, d)
	case *ssa.DebugRef:
		if id, ok := in.Expr.(*ast.Ident); ok {
			if in.IsAddr {
				fr.names["&"+id.Name] = in.X
			} else {
				fr.names[id.Name] = in.X
			}
		}
	case *ssa.SliceToArrayPointer:
		fr.env[in] = freshVal(in.Type(), "s2a")
	default:
		if v, ok := ins.(ssa.Value); ok {
			x.note("unmodelled instruction %T havocked", ins)
			nv := freshVal(v.Type(), "havoc")
			x.assumeWF(st, nv)
			fr.env[v] = nv
		}
	}
}

func (x *Exec) dropLastWrites(st *State, n int) {
	if st.dry != nil {
		return
	}
	if len(st.writes) >= n {
		st.writes = st.writes[:len(st.writes)-n]
	}
}

// escapeCheck: an interior pointer stored into memory loses its meta-level address (imprecise but sound:
// later loads through it read unconstrained memory). Recorded as a note.
func (x *Exec) escapeCheck(st *State, v Val) Val {
	if v.LV != nil {
		x.note("interior pointer stored to memory (address identity abstracted)")
		st.addInterior(v.C[0], v.LV)
	}
	return v
}

func (x *Exec) nilCheck(fr *Frame, st *State, p Val, pos token.Pos, what string) {
	if p.LV != nil && (p.LV.Path != "" || p.LV.Idx != nil) {
		return // interior addresses were checked when formed
	}
	ref := p.C[0]
	if ref.IsConst() && ref.Val.Sign() != 0 {
		return
	}
	goal := Not(Eq(ref, IntConst(0)))
	x.oblige(fr, st, "nil", what, pos, goal, "")
	st.assume(goal)
}

// checkedStore performs a store and the loop-frame check.
func (x *Exec) checkedStore(fr *Frame, st *State, lv *LVal, v Val, pos token.Pos) {
	x.loopFrameCheck(fr, st, lv.Prefix+"|"+lv.Path, lv.Ref, pos, len(layoutOf(lv.T)) > 0, lv)
	st.store(lv, v, x.posOf(pos))
}

func toBV64(t *Term, ty types.Type) *Term {
	if t.Sort == BV64 {
		return t
	}
	_, signed, _ := isIntType(ty)
	if signed {
		return SignExt(t, 64)
	}
	return ZeroExt(t, 64)
}

func (x *Exec) binop(fr *Frame, st *State, in *ssa.BinOp) Val {
	a, b := x.get(fr, in.X), x.get(fr, in.Y)
	return x.binopVals(fr, st, in.Op, a, b, in.X.Type(), in.Y.Type(), in.Type(), in.Pos())
}

func (x *Exec) binopVals(fr *Frame, st *State, op token.Token, a, b Val, tx, ty, tr types.Type, pos token.Pos) Val {
	bres := func(t *Term) Val { return Val{T: tr, C: []*Term{t}} }
	if w, signed, ok := isIntType(tx); ok {
		ta, tb := a.C[0], b.C[0]
		switch op {
		case token.SHL, token.SHR:
			// shift count: convert to operand width
			wy, sy, _ := isIntType(ty)
			cnt := tb
			if sy {
				neg := BVCmp("bvslt", cnt, BVConst(0, wy))
				x.oblige(fr, st, "shift", "", pos, Not(neg), "")
				st.assume(Not(neg))
			}
			if wy > w {
				big := BVCmp("bvuge", cnt, BVConst(int64(w), wy))
				cnt = Ite(big, BVConst(int64(w), w), Extract(w-1, 0, cnt))
			} else if wy < w {
				cnt = ZeroExt(cnt, w)
			}
			o := "bvshl"
			if op == token.SHR {
				o = "bvlshr"
				if signed {
					o = "bvashr"
				}
			}
			return bres(BVBin(o, ta, cnt))
		}
		if ta.Sort != tb.Sort {
			panic(fmt.Sprintf("binop sort mismatch %s %s at %s", ta.Sort, tb.Sort, x.posOf(pos)))
		}
		switch op {
		case token.ADD:
			return bres(BVBin("bvadd", ta, tb))
		case token.SUB:
			return bres(BVBin("bvsub", ta, tb))
		case token.MUL:
			return bres(BVBin("bvmul", ta, tb))
		case token.QUO, token.REM:
			nz := Not(Eq(tb, BVConst(0, w)))
			x.oblige(fr, st, "div", "", pos, nz, "")
			st.assume(nz)
			o := map[bool]map[token.Token]string{true: {token.QUO: "bvsdiv", token.REM: "bvsrem"}, false: {token.QUO: "bvudiv", token.REM: "bvurem"}}[signed][op]
			return bres(BVBin(o, ta, tb))
		case token.AND:
			return bres(BVBin("bvand", ta, tb))
		case token.OR:
			return bres(BVBin("bvor", ta, tb))
		case token.XOR:
			return bres(BVBin("bvxor", ta, tb))
		case token.AND_NOT:
			return bres(BVBin("bvand", ta, BVNot(tb)))
		case token.EQL:
			return bres(Eq(ta, tb))
		case token.NEQ:
			return bres(Not(Eq(ta, tb)))
		case token.LSS, token.LEQ, token.GTR, token.GEQ:
			p := "bvu"
			if signed {
				p = "bvs"
			}
			s := map[token.Token]string{token.LSS: "lt", token.LEQ: "le", token.GTR: "gt", token.GEQ: "ge"}[op]
			return bres(BVCmp(p+s, ta, tb))
		}
	}
	switch u := tx.Underlying().(type) {
	case *types.Basic:
		switch {
		case u.Info()&types.IsBoolean != 0:
			switch op {
			case token.EQL:
				return bres(Eq(a.C[0], b.C[0]))
			case token.NEQ:
				return bres(Not(Eq(a.C[0], b.C[0])))
			case token.LAND:
				return bres(And(a.C[0], b.C[0]))
			case token.LOR:
				return bres(Or(a.C[0], b.C[0]))
			}
		case u.Info()&types.IsString != 0:
			switch op {
			case token.EQL:
				return bres(Eq(a.C[0], b.C[0]))
			case token.NEQ:
				return bres(Not(Eq(a.C[0], b.C[0])))
			case token.ADD:
				r := freshVal(tr, "strcat")
				st.assume(Eq(slen(r.C[0]), BVBin("bvadd", slen(a.C[0]), slen(b.C[0]))))
				x.assumeWF(st, r)
				return r
			default:
				return bres(UF("strcmp_"+op.String(), BoolSort, a.C[0], b.C[0]))
			}
		case u.Info()&types.IsFloat != 0:
			if op == token.EQL || op == token.NEQ || op == token.LSS || op == token.LEQ || op == token.GTR || op == token.GEQ {
				return bres(UF("fcmp_"+sanitize(op.String()), BoolSort, a.C[0], b.C[0]))
			}
			return bres(UF("fop_"+sanitize(op.String()), BV64, a.C[0], b.C[0]))
		}
	}
	// comparisons of references, interfaces, slices (against nil), structs
	if op == token.EQL || op == token.NEQ {
		var eqs []*Term
		n := len(a.C)
		if _, isSlice := tx.Underlying().(*types.Slice); isSlice {
			n = 1
		}
		if len(b.C) < n {
			n = len(b.C)
		}
		for i := 0; i < n; i++ {
			if a.C[i].Sort != b.C[i].Sort {
				panic("eq sort mismatch at " + x.posOf(pos))
			}
			eqs = append(eqs, Eq(a.C[i], b.C[i]))
		}
		e := And(eqs...)
		if op == token.NEQ {
			e = Not(e)
		}
		return bres(e)
	}
	x.note("binop %s on %s havocked", op, typeKey(tx))
	return freshVal(tr, "binop")
}

func (x *Exec) unop(fr *Frame, st *State, in *ssa.UnOp) Val {
	a := x.get(fr, in.X)
	switch in.Op {
	case token.NOT:
		return Val{T: in.Type(), C: []*Term{Not(a.C[0])}}
	case token.SUB:
		if _, _, ok := isIntType(in.Type()); ok {
			return Val{T: in.Type(), C: []*Term{BVNeg(a.C[0])}}
		}
		return Val{T: in.Type(), C: []*Term{UF("fneg", BV64, a.C[0])}}
	case token.XOR:
		return Val{T: in.Type(), C: []*Term{BVNot(a.C[0])}}
	case token.MUL:
		x.nilCheck(fr, st, a, in.Pos(), "load")
		lv := derefPtr(a)
		if g, ok := in.X.(*ssa.Global); ok {
			return x.loadGlobal(st, g, lv)
		}
		v := x.loadWF(st, lv)
		v = x.reattachInterior(st, v)
		return v
	case token.ARROW:
		v := freshVal(in.Type(), "recv")
		x.assumeWF(st, v)
		return v
	}
	panic("unop " + in.Op.String())
}

// reattachInterior restores the meta-level address of an interior pointer read back from memory
// when exactly one such pointer with that reference was stored.
func (x *Exec) reattachInterior(st *State, v Val) Val {
	if _, ok := v.T.Underlying().(*types.Pointer); ok && len(v.C) == 1 {
		if l := st.interior[v.C[0]]; len(l) == 1 {
			v.LV = l[0]
		}
	}
	return v
}

func (x *Exec) loadGlobal(st *State, g *ssa.Global, lv *LVal) Val {
	// package-level error variables and similar singletons get stable, distinct identities
	name := g.String()
	elem := g.Type().Underlying().(*types.Pointer).Elem()
	if _, isIface := elem.Underlying().(*types.Interface); isIface {
		// e.g. io.EOF, ErrEOF: non-nil interface with a unique payload per global
		id := x.globalRef(g).Val.Int64()
		_ = name
		return Val{T: elem, C: []*Term{IntConst(id - 1200000), IntConst(id + 500000)}}
	}
	if st.heap[lv.Prefix+"|"+lv.Path] == nil && len(layoutOf(elem)) == 1 {
		// first read of a global scalar: stable symbolic initial value
	}
	v := x.loadWF(st, lv)
	return v
}

func (x *Exec) convert(fr *Frame, st *State, in *ssa.Convert) Val {
	a := x.get(fr, in.X)
	from, to := in.X.Type(), in.Type()
	wf, sf, okf := isIntType(from)
	wt, _, okt := isIntType(to)
	if okf && okt {
		t := a.C[0]
		switch {
		case wt == wf:
		case wt < wf:
			t = Extract(wt-1, 0, t)
		case sf:
			t = SignExt(t, wt)
		default:
			t = ZeroExt(t, wt)
		}
		return Val{T: to, C: []*Term{t}}
	}
	fb, _ := from.Underlying().(*types.Basic)
	tb, _ := to.Underlying().(*types.Basic)
	_, fromSlice := from.Underlying().(*types.Slice)
	_, toSlice := to.Underlying().(*types.Slice)
	switch {
	case fromSlice && tb != nil && tb.Info()&types.IsString != 0:
		// string(bytes): fresh string id with the slice's current contents
		r := freshVal(to, "str")
		sid := r.C[0]
		st.assume(Eq(slen(sid), a.Len()))
		if et := from.Underlying().(*types.Slice).Elem(); typeKey(et.Underlying()) == "uint8" {
			h := Select(st.heapMap("[]uint8|", ArraySort(IntSort, ArraySort(BV64, BV8))), a.Arr())
			i := BoundVar("i!s", BV64)
			body := Implies(And(BVCmp("bvsle", bv64(0), i), BVCmp("bvslt", i, a.Len())),
				Eq(sbyte(sid, i), Select(h, BVBin("bvadd", a.Off(), i))))
			st.assume(Forall([]*Term{i}, body, []*Term{sbyte(sid, i)}))
		}
		x.assumeWF(st, r)
		return r
	case toSlice && fb != nil && fb.Info()&types.IsString != 0:
		// []byte(s): fresh array with the string's bytes
		ref := st.alloc()
		ln := slen(a.C[0])
		st.assume(BVCmp("bvsle", bv64(0), ln))
		name := "[]uint8|"
		h := st.heapMap(name, ArraySort(IntSort, ArraySort(BV64, BV8)))
		arr := FreshVar("strbytes", ArraySort(BV64, BV8))
		i := BoundVar("i!b", BV64)
		st.assume(Forall([]*Term{i}, Implies(And(BVCmp("bvsle", bv64(0), i), BVCmp("bvslt", i, ln)), Eq(Select(arr, i), sbyte(a.C[0], i))), []*Term{Select(arr, i)}))
		st.heap[name] = Store(h, ref, arr)
		return mkSlice(to, ref, bv64(0), ln, ln)
	case okf && tb != nil && tb.Info()&types.IsFloat != 0:
		return Val{T: to, C: []*Term{UF(fmt.Sprintf("i2f%d", wf), BV64, a.C[0])}}
	case okt && fb != nil && fb.Info()&types.IsFloat != 0:
		if a.C[0].Op == "uf" && a.C[0].Name == "dursec" {
			return Val{T: to, C: []*Term{durToUint(st, a.C[0], wt)}}
		}
		return Val{T: to, C: []*Term{UF(fmt.Sprintf("f2i%d", wt), BV(wt), a.C[0])}}
	case fb != nil && tb != nil && fb.Info()&types.IsFloat != 0 && tb.Info()&types.IsFloat != 0:
		return Val{T: to, C: a.C}
	case fb != nil && tb != nil && fb.Info()&types.IsString != 0 && tb.Info()&types.IsString != 0:
		return Val{T: to, C: a.C}
	}
	if len(layoutOf(from)) == len(layoutOf(to)) {
		ok := true
		for i, c := range layoutOf(to) {
			if a.C[i].Sort != c.Sort {
				ok = false
			}
		}
		if ok {
			return Val{T: to, C: a.C, LV: a.LV}
		}
	}
	x.note("conversion %s -> %s havocked", typeKey(from), typeKey(to))
	r := freshVal(to, "conv")
	x.assumeWF(st, r)
	return r
}

func (x *Exec) makeInterface(st *State, v Val, static types.Type, itype types.Type) Val {
	id := IntConst(int64(typeID(static)))
	if _, ok := static.Underlying().(*types.Pointer); ok && v.LV == nil {
		return Val{T: itype, C: []*Term{id, v.C[0]}}
	}
	switch static.Underlying().(type) {
	case *types.Map, *types.Chan, *types.Signature:
		return Val{T: itype, C: []*Term{id, v.C[0]}}
	}
	// box
	ref := st.alloc()
	lv := &LVal{Prefix: "box:" + typeKey(static), Ref: ref, T: static}
	st.store(lv, Val{T: static, C: v.C}, "")
	x.dropLastWrites(st, len(v.C))
	if v.LV != nil {
		st.addInterior(ref, v.LV)
	}
	return Val{T: itype, C: []*Term{id, ref}}
}

// addInterior remembers (per path) that `ref` stands for the interior address lv.
func (st *State) addInterior(ref *Term, lv *LVal) {
	for _, o := range st.interior[ref] {
		if o.Prefix == lv.Prefix && o.Ref == lv.Ref && o.Idx == lv.Idx && o.Path == lv.Path {
			return
		}
	}
	n := make(map[*Term][]*LVal, len(st.interior)+1)
	for k, v := range st.interior {
		n[k] = v
	}
	old := n[ref]
	n[ref] = append(old[:len(old):len(old)], lv)
	st.interior = n
}

func (x *Exec) unbox(st *State, iv Val, t types.Type) Val {
	if _, ok := t.Underlying().(*types.Pointer); ok {
		if l := st.interior[iv.C[1]]; len(l) == 1 {
			return Val{T: t, C: []*Term{l[0].Ref}, LV: l[0]}
		}
		return Val{T: t, C: []*Term{iv.C[1]}}
	}
	switch t.Underlying().(type) {
	case *types.Map, *types.Chan, *types.Signature:
		return Val{T: t, C: []*Term{iv.C[1]}}
	}
	lv := &LVal{Prefix: "box:" + typeKey(t), Ref: iv.C[1], T: t}
	return x.loadWF(st, lv)
}

func (x *Exec) implements(typ *Term, iface types.Type) *Term {
	it := iface.Underlying().(*types.Interface)
	if typ.Op == "intconst" {
		id := int(typ.Val.Int64())
		if id == 0 {
			return False
		}
		if t := typeByID(id); t != nil {
			return BoolT(types.Implements(t, it))
		}
	}
	if it.NumMethods() == 0 {
		return Not(Eq(typ, IntConst(0)))
	}
	return And(Not(Eq(typ, IntConst(0))), UF("impl."+typeKey(iface), BoolSort, typ))
}

func (x *Exec) typeAssert(fr *Frame, st *State, in *ssa.TypeAssert) Val {
	iv := x.get(fr, in.X)
	at := in.AssertedType
	var ok *Term
	var val Val
	if _, isIface := at.Underlying().(*types.Interface); isIface {
		ok = x.implements(iv.C[0], at)
		val = Val{T: at, C: iv.C}
	} else {
		ok = Eq(iv.C[0], IntConst(int64(typeID(at))))
		val = x.unbox(st, iv, at)
	}
	if in.CommaOk {
		z := zeroVal(at)
		out := Val{T: in.Type()}
		for i := range val.C {
			out.C = append(out.C, Ite(ok, val.C[i], z.C[i]))
		}
		out.C = append(out.C, ok)
		if val.LV != nil {
			// keep the address for the ok case
			out.LV = val.LV // element 0 of the (value, ok) pair is an interior address
		}
		return out
	}
	x.oblige(fr, st, "assert", typeKey(at), in.Pos(), ok, "")
	st.assume(ok)
	return val
}

func (x *Exec) indexAddr(fr *Frame, st *State, in *ssa.IndexAddr) Val {
	base := x.get(fr, in.X)
	idx := toBV64(x.get(fr, in.Index).C[0], in.Index.Type())
	switch u := in.X.Type().Underlying().(type) {
	case *types.Slice:
		goal := And(BVCmp("bvsle", bv64(0), idx), BVCmp("bvslt", idx, base.Len()))
		x.oblige(fr, st, "bounds", "index", in.Pos(), goal, "")
		st.assume(goal)
		lv := elemLVal(base, idx)
		return Val{T: in.Type(), C: []*Term{lv.Ref}, LV: lv}
	case *types.Pointer:
		at := u.Elem().Underlying().(*types.Array)
		x.nilCheck(fr, st, base, in.Pos(), "index")
		goal := And(BVCmp("bvsle", bv64(0), idx), BVCmp("bvslt", idx, bv64(at.Len())))
		x.oblige(fr, st, "bounds", "index", in.Pos(), goal, "")
		st.assume(goal)
		lv := derefPtr(base)
		if lv.Idx != nil {
			x.note("nested array index not modelled")
			return freshVal(in.Type(), "idxaddr")
		}
		nl := &LVal{Prefix: lv.Prefix, Ref: lv.Ref, Idx: idx, Path: lv.Path, T: at.Elem()}
		return Val{T: in.Type(), C: []*Term{lv.Ref}, LV: nl}
	}
	panic("indexAddr on " + typeKey(in.X.Type()))
}

func (x *Exec) index(fr *Frame, st *State, in *ssa.Index) Val {
	base := x.get(fr, in.X)
	idx := toBV64(x.get(fr, in.Index).C[0], in.Index.Type())
	switch u := in.X.Type().Underlying().(type) {
	case *types.Array:
		goal := And(BVCmp("bvsle", bv64(0), idx), BVCmp("bvslt", idx, bv64(u.Len())))
		x.oblige(fr, st, "bounds", "index", in.Pos(), goal, "")
		st.assume(goal)
		out := Val{T: in.Type()}
		for _, c := range base.C {
			out.C = append(out.C, Select(c, idx))
		}
		return out
	case *types.Basic: // string
		goal := And(BVCmp("bvsle", bv64(0), idx), BVCmp("bvslt", idx, slen(base.C[0])))
		x.oblige(fr, st, "bounds", "index", in.Pos(), goal, "")
		st.assume(goal)
		return Val{T: in.Type(), C: []*Term{sbyte(base.C[0], idx)}}
	}
	panic("index on " + typeKey(in.X.Type()))
}

func (x *Exec) slice(fr *Frame, st *State, in *ssa.Slice) Val {
	base := x.get(fr, in.X)
	opt := func(v ssa.Value) *Term {
		if v == nil {
			return nil
		}
		return toBV64(x.get(fr, v).C[0], v.Type())
	}
	lo, hi, mx := opt(in.Low), opt(in.High), opt(in.Max)
	if lo == nil {
		lo = bv64(0)
	}
	switch u := in.X.Type().Underlying().(type) {
	case *types.Slice:
		if hi == nil {
			hi = base.Len()
		}
		capT := base.Cap()
		top := capT
		if mx != nil {
			top = mx
		}
		goal := And(BVCmp("bvsle", bv64(0), lo), BVCmp("bvsle", lo, hi), BVCmp("bvsle", hi, top), BVCmp("bvsle", top, capT))
		x.oblige(fr, st, "bounds", "slice", in.Pos(), goal, "")
		st.assume(goal)
		return mkSlice(in.Type(), base.Arr(), BVBin("bvadd", base.Off(), lo), BVBin("bvsub", hi, lo), BVBin("bvsub", top, lo))
	case *types.Basic: // string
		ln := slen(base.C[0])
		if hi == nil {
			hi = ln
		}
		goal := And(BVCmp("bvsle", bv64(0), lo), BVCmp("bvsle", lo, hi), BVCmp("bvsle", hi, ln))
		x.oblige(fr, st, "bounds", "slice", in.Pos(), goal, "")
		st.assume(goal)
		if lo == bv64(0) && hi == ln {
			return base
		}
		r := freshVal(in.Type(), "substr")
		st.assume(Eq(slen(r.C[0]), BVBin("bvsub", hi, lo)))
		i := BoundVar("i!ss", BV64)
		st.assume(Forall([]*Term{i}, Implies(And(BVCmp("bvsle", bv64(0), i), BVCmp("bvslt", i, BVBin("bvsub", hi, lo))),
			Eq(sbyte(r.C[0], i), sbyte(base.C[0], BVBin("bvadd", lo, i)))), []*Term{sbyte(r.C[0], i)}))
		return r
	case *types.Pointer:
		at := u.Elem().Underlying().(*types.Array)
		x.nilCheck(fr, st, base, in.Pos(), "slice")
		n := bv64(at.Len())
		if hi == nil {
			hi = n
		}
		top := n
		if mx != nil {
			top = mx
		}
		goal := And(BVCmp("bvsle", bv64(0), lo), BVCmp("bvsle", lo, hi), BVCmp("bvsle", hi, top), BVCmp("bvsle", top, n))
		x.oblige(fr, st, "bounds", "slice", in.Pos(), goal, "")
		st.assume(goal)
		lv := derefPtr(base)
		if lv.Path != "" || lv.Idx != nil {
			x.note("slice of embedded array havocked")
			r := freshVal(in.Type(), "slicearr")
			x.assumeWF(st, r)
			return r
		}
		return mkSlice(in.Type(), lv.Ref, lo, BVBin("bvsub", hi, lo), BVBin("bvsub", top, lo))
	}
	panic("slice on " + typeKey(in.X.Type()))
}

func (x *Exec) lookup(fr *Frame, st *State, in *ssa.Lookup) Val {
	if b, ok := in.X.Type().Underlying().(*types.Basic); ok && b.Info()&types.IsString != 0 {
		base := x.get(fr, in.X)
		idx := toBV64(x.get(fr, in.Index).C[0], in.Index.Type())
		goal := And(BVCmp("bvsle", bv64(0), idx), BVCmp("bvslt", idx, slen(base.C[0])))
		x.oblige(fr, st, "bounds", "index", in.Pos(), goal, "")
		st.assume(goal)
		return Val{T: in.Type(), C: []*Term{sbyte(base.C[0], idx)}}
	}
	// map lookup: unconstrained (functional in map identity and key where the key is a single term)
	m := x.get(fr, in.X)
	key := x.get(fr, in.Index)
	mt := in.X.Type().Underlying().(*types.Map)
	var out Val
	if len(key.C) == 1 && !st.mapsDirty {
		l := layoutOf(mt.Elem())
		out = Val{T: mt.Elem()}
		for _, c := range l {
			out.C = append(out.C, UF("map."+typeKey(mt)+c.Path, c.Sort, m.C[0], key.C[0]))
		}
		okT := UF("map."+typeKey(mt)+".ok", BoolSort, m.C[0], key.C[0])
		// a nil map holds no key
		st.assume(Implies(Eq(m.C[0], IntConst(0)), Not(okT)))
		x.assumeWF(st, out)
		if in.CommaOk {
			z := zeroVal(mt.Elem())
			r := Val{T: in.Type()}
			for i := range out.C {
				r.C = append(r.C, Ite(okT, out.C[i], z.C[i]))
			}
			r.C = append(r.C, okT)
			return r
		}
		z := zeroVal(mt.Elem())
		r := Val{T: in.Type()}
		for i := range out.C {
			r.C = append(r.C, Ite(okT, out.C[i], z.C[i]))
		}
		return r
	}
	r := freshVal(in.Type(), "maplookup")
	x.assumeWF(st, r)
	return r
}
