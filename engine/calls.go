package main

// Calls: builtins, static calls (contract | handler | inline | havoc), function values, interface invokes.

import (
	"os"
	"fmt"
	"go/token"
	"go/types"
	"strings"

	"golang.org/x/tools/go/ssa"
)

func (x *Exec) calleeValue(fr *Frame, cc *ssa.CallCommon) Val {
	return x.get(fr, cc.Value)
}

func (x *Exec) doCall(fr *Frame, st *State, site ssa.Instruction, cc *ssa.CallCommon, k Kont) {
	var args []Val
	for _, a := range cc.Args {
		args = append(args, x.get(fr, a))
	}
	if cc.IsInvoke() {
		x.invoke(fr, st, site, cc, x.get(fr, cc.Value), args, k)
		return
	}
	switch v := cc.Value.(type) {
	case *ssa.Builtin:
		res, handled := x.builtin(fr, st, site, v, cc, args)
		if handled {
			k(st, res, false)
		}
		return
	case *ssa.Function:
		x.callStatic(fr, st, site, v, args, nil, k)
		return
	}
	x.callValue(fr, st, site, cc, x.get(fr, cc.Value), args, k)
}

func (x *Exec) callValue(fr *Frame, st *State, site ssa.Instruction, cc *ssa.CallCommon, fnv Val, args []Val, k Kont) {
	if cc != nil && cc.IsInvoke() {
		x.invoke(fr, st, site, cc, fnv, args, k)
		return
	}
	if cc != nil {
		if b, ok := cc.Value.(*ssa.Builtin); ok {
			res, handled := x.builtin(fr, st, site, b, cc, args)
			if handled {
				k(st, res, false)
			}
			return
		}
	}
	id := fnv.C[0]
	if id.Op == "intconst" {
		if cl, ok := x.closures[int(id.Val.Int64())]; ok {
			x.callStatic(fr, st, site, cl.Fn, args, cl.Bindings, k)
			return
		}
	}
	goal := Not(Eq(id, IntConst(0)))
	x.oblige(fr, st, "nil", "call", site.Pos(), goal, "")
	st.assume(goal)
	// unknown function value: function-type contract by the static type of the callee expression
	var sig *types.Signature
	var tname string
	if cc != nil {
		sig = cc.Signature()
		tname = typeKey(cc.Value.Type())
	} else {
		sig = fnv.T.Underlying().(*types.Signature)
		tname = typeKey(fnv.T)
	}
	if c := x.cs.forFuncType(tname, sig); c != nil {
		x.selfVal = &fnv
		x.applyContract(fr, st, site, "functype "+tname, c, sig, nil, args, nil, k)
		return
	}
	x.note("call of unknown function value of type %s: heap havocked", tname)
	x.havocCall(fr, st, site, sig, true, k)
}

func (x *Exec) havocCall(fr *Frame, st *State, site ssa.Instruction, sig *types.Signature, heap bool, k Kont) {
	if os.Getenv("GOCV_TRACE_CONTRACTS") != "" {
		fmt.Fprintf(os.Stderr, "havocCall heap=%v at %s: %s\n", heap, x.posOf(site.Pos()), site.String())
	}
	if heap {
		for _, key := range st.heapKeys() {
			st.havocMap(key)
		}
		st.mapsDirty = true
		if st.dry == nil {
			st.writes = append(st.writes, WriteRec{Key: "*", Ref: nil, Pos: x.posOf(site.Pos())})
			for _, lf := range st.loopFrames {
				_ = lf
			}
		} else {
			st.dry.all["*"] = true
		}
		x.loopFrameAll(fr, st, site.Pos())
	}
	st.havocAlloc()
	res := freshVal(resultType(sig), "ret")
	x.assumeWF(st, res)
	k(st, res, false)
}

func resultType(sig *types.Signature) types.Type {
	switch sig.Results().Len() {
	case 0:
		return types.NewTuple()
	case 1:
		return sig.Results().At(0).Type()
	}
	return sig.Results()
}

func (x *Exec) inlinable(fn *ssa.Function) bool {
	if len(fn.Blocks) == 0 {
		return false
	}
	if len(fn.Blocks) > 80 {
		return false
	}
	pkg := fn.Pkg
	if pkg == nil && fn.Origin() != nil {
		pkg = fn.Origin().Pkg
	}
	if pkg == nil {
		// synthetic wrappers / bound method closures / instantiations
		if fn.Synthetic != "" {
			return true
		}
		return false
	}
	p := pkg.Pkg.Path()
	if strings.HasPrefix(p, x.modulePath) {
		return true
	}
	switch p {
	case "encoding/binary", "slices", "cmp":
		return true
	}
	return false
}

func externSummary(c *FuncContract) string {
	var parts []string
	for _, r := range c.Requires {
		parts = append(parts, "requires "+r.Text)
	}
	for _, e := range c.Ensures {
		parts = append(parts, "ensures "+e.Text)
	}
	if c.Pure {
		parts = append(parts, "pure")
	}
	if c.MayPanic {
		parts = append(parts, "maypanic")
	}
	return strings.Join(parts, "; ")
}

func (x *Exec) onStack(fr *Frame, fn *ssa.Function) bool {
	n := 0
	for f := fr; f != nil; f = f.parent {
		if f.fn == fn {
			n++
		}
	}
	if x.tapeMode {
		// nested structures re-enter Encoder.Struct / Decoder.Struct and the codec methods; the element tape
		// is finite, so a small re-entrancy bound is enough (beyond it the call is havocked, which is sound)
		return n >= 5
	}
	return n > 0
}

func (x *Exec) callStatic(fr *Frame, st *State, site ssa.Instruction, callee *ssa.Function, args []Val, bindings []Val, k Kont) {
	name := callee.String()
	oname := name
	if o := callee.Origin(); o != nil {
		oname = o.String()
	}
	if c, ok := x.cs.externs[oname]; ok {
		x.assumeNote(fmt.Sprintf("assumed contract (extern) %s: %s", oname, externSummary(c)))
		x.applyContract(fr, st, site, oname, c, callee.Signature, nil, args, nil, k)
		return
	}
	if h, ok := stdHandlers[oname]; ok {
		h(x, fr, st, site, callee, args, k)
		return
	}
	if x.tapeMode {
		if h, ok := tapeHandlers[oname]; ok {
			h(x, fr, st, site, callee, args, k)
			return
		}
	}
	if tc := x.cs.forFunc(x.top); tc != nil && tc.UseBody != nil {
		if _, nm := relName(callee); tc.UseBody[nm] && x.inlinable(callee) && !x.onStack(fr, callee) {
			x.inlined[funcName(callee)] = true
			nf := x.newFrame(callee, args, bindings, st, fr, site)
			x.execFunc(nf, st, k)
			return
		}
	}
	if c := x.cs.forFunc(callee); c != nil && !c.Inline && callee != x.top {
		x.applyContract(fr, st, site, funcName(callee), c, callee.Signature, callee, args, bindings, k)
		return
	} else if c != nil && callee == x.top {
		// recursion on the function under verification: use its contract
		x.applyContract(fr, st, site, funcName(callee), c, callee.Signature, callee, args, bindings, k)
		return
	}
	if x.inlinable(callee) && fr.depth < x.maxDepth && !x.onStack(fr, callee) {
		x.inlined[funcName(callee)] = true
		nf := x.newFrame(callee, args, bindings, st, fr, site)
		x.execFunc(nf, st, func(st2 *State, res Val, panicked bool) {
			k(st2, res, panicked)
		})
		return
	}
	pkgPath := ""
	if callee.Pkg != nil {
		pkgPath = callee.Pkg.Pkg.Path()
	} else if o := callee.Origin(); o != nil && o.Pkg != nil {
		pkgPath = o.Pkg.Pkg.Path()
	}
	inModule := strings.HasPrefix(pkgPath, x.modulePath)
	if inModule {
		x.note("module function %s not inlined (size/depth/recursion): heap havocked", funcName(callee))
		x.havocCall(fr, st, site, callee.Signature, true, k)
		return
	}
	if pkgPath == "math/big" {
		// every method of *big.Int / *big.Float dereferences its receiver and its *big operands:
		// a nil one panics, so it is an obligation of the caller rather than part of the "does not panic" default
		for i, a := range args {
			pt, ok := a.T.Underlying().(*types.Pointer)
			if !ok || len(a.C) == 0 {
				continue
			}
			if tn, ok := pt.Elem().(*types.Named); !ok || tn.Obj().Pkg() == nil || tn.Obj().Pkg().Path() != "math/big" {
				continue
			}
			x.nilCheck(fr, st, a, site.Pos(), fmt.Sprintf("big.%s.arg%d", callee.Name(), i))
		}
		x.assumeNote(fmt.Sprintf("external %s: result unconstrained, reads but does not write caller-visible memory, panics only on a nil *big operand (obligation of the caller)", oname))
		x.havocCall(fr, st, site, callee.Signature, false, k)
		return
	}
	x.assumeNote(fmt.Sprintf("external %s: result unconstrained, reads but does not write caller-visible memory, does not panic", oname))
	x.havocCall(fr, st, site, callee.Signature, false, k)
}

// invoke: interface method call.
func (x *Exec) invoke(fr *Frame, st *State, site ssa.Instruction, cc *ssa.CallCommon, recv Val, args []Val, k Kont) {
	goal := Not(Eq(recv.C[0], IntConst(0)))
	x.oblige(fr, st, "nil", "invoke", site.Pos(), goal, "")
	st.assume(goal)
	if x.tapeMode && x.modelInvoke(fr, st, site, cc, recv, args, k) {
		return
	}
	if recv.C[0].Op == "intconst" {
		if t := typeByID(int(recv.C[0].Val.Int64())); t != nil {
			ms := x.prog.MethodSets.MethodSet(t)
			if sel := ms.Lookup(cc.Method.Pkg(), cc.Method.Name()); sel != nil {
				if fn := x.prog.MethodValue(sel); fn != nil {
					rv := x.unbox(st, recv, t)
					x.callStatic(fr, st, site, fn, append([]Val{rv}, args...), nil, k)
					return
				}
			}
		}
	}
	iname := typeKey(cc.Value.Type()) + "." + cc.Method.Name()
	sig := cc.Signature()
	c := x.cs.forIface(iname, cc.Method)
	if c == nil {
		c = x.cs.forIface(cc.Method.FullName(), cc.Method)
	}
	if c != nil {
		x.applyContract(fr, st, site, "iface "+iname, c, sig, nil, append([]Val{recv}, args...), nil, k)
		return
	}
	if h, ok := ifaceHandlers[iname]; ok {
		h(x, fr, st, site, recv, args, k)
		return
	}
	if h, ok := ifaceHandlers[cc.Method.FullName()]; ok {
		h(x, fr, st, site, recv, args, k)
		return
	}
	// interfaces declared outside the module (net.Conn, io.Writer, slog.Handler, ...): assumed not to write
	// memory the verified code can observe; result unconstrained
	if tn, ok := cc.Value.Type().(*types.Named); ok && tn.Obj().Pkg() != nil && !strings.HasPrefix(tn.Obj().Pkg().Path(), x.modulePath) {
		x.assumeNote(fmt.Sprintf("external interface method %s: result unconstrained, no caller-visible writes, does not panic", cc.Method.FullName()))
		x.havocCall(fr, st, site, sig, false, k)
		return
	}
	x.note("interface call %s without contract: heap havocked", iname)
	x.havocCall(fr, st, site, sig, true, k)
}

// ---------------------------------------------------------------------------
// builtins

func (x *Exec) builtin(fr *Frame, st *State, site ssa.Instruction, b *ssa.Builtin, cc *ssa.CallCommon, args []Val) (Val, bool) {
	rt := resultType(cc.Signature())
	switch b.Name() {
	case "len":
		a := args[0]
		switch u := cc.Args[0].Type().Underlying().(type) {
		case *types.Slice:
			return Val{T: rt, C: []*Term{a.Len()}}, true
		case *types.Basic:
			l := slen(a.C[0])
			st.assume(BVCmp("bvsle", bv64(0), l))
			return Val{T: rt, C: []*Term{l}}, true
		case *types.Array:
			return Val{T: rt, C: []*Term{bv64(u.Len())}}, true
		case *types.Pointer:
			return Val{T: rt, C: []*Term{bv64(u.Elem().Underlying().(*types.Array).Len())}}, true
		default:
			r := freshVal(rt, "len")
			st.assume(BVCmp("bvsle", bv64(0), r.C[0]))
			return r, true
		}
	case "cap":
		a := args[0]
		switch u := cc.Args[0].Type().Underlying().(type) {
		case *types.Slice:
			return Val{T: rt, C: []*Term{a.Cap()}}, true
		case *types.Array:
			return Val{T: rt, C: []*Term{bv64(u.Len())}}, true
		}
		r := freshVal(rt, "cap")
		st.assume(BVCmp("bvsle", bv64(0), r.C[0]))
		return r, true
	case "append":
		return x.doAppend(fr, st, site, args[0], args[1], cc.Args[1].Type(), rt), true
	case "copy":
		return x.doCopy(fr, st, site, args[0], args[1], cc.Args[1].Type(), rt), true
	case "recover":
		if st.unwinding {
			st.unwinding = false
			r := freshVal(rt, "recovered")
			st.assume(Not(Eq(r.C[0], IntConst(0))))
			x.assumeWF(st, r)
			// a declared ghost counter "recovers" observes every recovered panic
			if g, ok := st.ghost["recovers"]; ok {
				st.ghost["recovers"] = Val{T: g.T, C: []*Term{BVBin("bvadd", g.C[0], BVConst(1, g.C[0].Sort.Width))}}
			}
			return r, true
		}
		return zeroVal(rt), true
	case "print", "println", "close", "delete", "clear":
		if b.Name() == "delete" || b.Name() == "clear" {
			st.mapsDirty = true
		}
		return Val{T: rt}, true
	case "min", "max":
		w, signed, ok := isIntType(rt)
		_ = w
		if ok {
			cur := args[0].C[0]
			for _, a := range args[1:] {
				op := "bvult"
				if signed {
					op = "bvslt"
				}
				lt := BVCmp(op, a.C[0], cur)
				if b.Name() == "max" {
					lt = BVCmp(op, cur, a.C[0])
				}
				cur = Ite(lt, a.C[0], cur)
			}
			return Val{T: rt, C: []*Term{cur}}, true
		}
	case "ssa:wrapnilchk":
		x.nilCheck(fr, st, args[0], site.Pos(), "wrapnilchk")
		return args[0], true
	}
	x.note("builtin %s havocked", b.Name())
	r := freshVal(rt, "builtin")
	x.assumeWF(st, r)
	return r, true
}

// elemComps lists the heap maps that hold the elements of slices of the given type.
func elemMaps(st *State, sliceT types.Type) (names []string, sorts []*Sort) {
	et := sliceT.Underlying().(*types.Slice).Elem()
	for _, c := range layoutOf(et) {
		names = append(names, "[]"+typeKey(et)+"|"+c.Path)
		sorts = append(sorts, c.Sort)
	}
	return
}

// copyRange returns A with A[dst+j] = src(j) for 0 <= j < n.
func copyRange(st *State, A *Term, dst *Term, n *Term, src func(j *Term) *Term) *Term {
	if n.Op == "bvconst" && n.Val.IsInt64() && n.Val.Int64() <= 32 {
		for j := int64(0); j < n.Val.Int64(); j++ {
			A = Store(A, BVBin("bvadd", dst, bv64(j)), src(bv64(j)))
		}
		return A
	}
	R := FreshVar("cpy", A.Sort)
	i := BoundVar("i!c", BV64)
	in := And(BVCmp("bvsle", dst, i), BVCmp("bvslt", i, BVBin("bvadd", dst, n)))
	body := Eq(Select(R, i), Ite(in, src(BVBin("bvsub", i, dst)), Select(A, i)))
	st.assume(Forall([]*Term{i}, body, []*Term{Select(R, i)}))
	return R
}

func (x *Exec) doAppend(fr *Frame, st *State, site ssa.Instruction, s, t Val, tt types.Type, rt types.Type) Val {
	var k *Term
	isStr := false
	if b, ok := tt.Underlying().(*types.Basic); ok && b.Info()&types.IsString != 0 {
		isStr = true
		k = slen(t.C[0])
		st.assume(BVCmp("bvsle", bv64(0), k))
	} else {
		k = t.Len()
	}
	if k == bv64(0) {
		return Val{T: rt, C: s.C}
	}
	newLen := BVBin("bvadd", s.Len(), k)
	inplace := BVCmp("bvsle", newLen, s.Cap())
	fresh := st.alloc()
	arr := Ite(inplace, s.Arr(), fresh)
	capF := FreshVar("cap", BV64)
	st.assume(And(BVCmp("bvsle", newLen, capF), BVCmp("bvsle", capF, bv64(1<<41))))
	cp := Ite(inplace, s.Cap(), capF)
	names, sorts := elemMaps(st, rt)
	dst := BVBin("bvadd", s.Off(), s.Len())
	for ci, name := range names {
		hs := ArraySort(IntSort, ArraySort(BV64, sorts[ci]))
		h := st.heapMap(name, hs)
		A := Select(h, s.Arr())
		var src func(j *Term) *Term
		if isStr {
			sid := t.C[0]
			src = func(j *Term) *Term { return sbyte(sid, j) }
		} else {
			S := Select(h, t.Arr())
			soff := t.Off()
			src = func(j *Term) *Term { return Select(S, BVBin("bvadd", soff, j)) }
		}
		A2 := copyRange(st, A, dst, k, src)
		x.loopFrameCheck(fr, st, name, arr, site.Pos(), true, nil)
		st.heap[name] = Store(h, arr, A2)
		st.recordWrite(name, arr, x.posOf(site.Pos()))
	}
	return mkSlice(rt, arr, s.Off(), newLen, cp)
}

func (x *Exec) doCopy(fr *Frame, st *State, site ssa.Instruction, d, s Val, stype types.Type, rt types.Type) Val {
	var sl *Term
	isStr := false
	if b, ok := stype.Underlying().(*types.Basic); ok && b.Info()&types.IsString != 0 {
		isStr = true
		sl = slen(s.C[0])
	} else {
		sl = s.Len()
	}
	n := Ite(BVCmp("bvslt", d.Len(), sl), d.Len(), sl)
	names, sorts := elemMaps(st, d.T)
	for ci, name := range names {
		hs := ArraySort(IntSort, ArraySort(BV64, sorts[ci]))
		h := st.heapMap(name, hs)
		A := Select(h, d.Arr())
		var src func(j *Term) *Term
		if isStr {
			sid := s.C[0]
			src = func(j *Term) *Term { return sbyte(sid, j) }
		} else {
			S := Select(h, s.Arr())
			soff := s.Off()
			src = func(j *Term) *Term { return Select(S, BVBin("bvadd", soff, j)) }
		}
		A2 := copyRange(st, A, d.Off(), n, src)
		x.loopFrameCheck(fr, st, name, d.Arr(), site.Pos(), true, nil)
		st.heap[name] = Store(h, d.Arr(), A2)
		st.recordWrite(name, d.Arr(), x.posOf(site.Pos()))
	}
	return Val{T: rt, C: []*Term{n}}
}

// ---------------------------------------------------------------------------
// contracts at call sites

func (x *Exec) applyContract(fr *Frame, st *State, site ssa.Instruction, cname string, c *FuncContract, sig *types.Signature, callee *ssa.Function, args []Val, bindings []Val, k Kont) {
	if os.Getenv("GOCV_TRACE_CONTRACTS") != "" {
		fmt.Fprintf(os.Stderr, "applyContract %s\n", cname)
	}
	env := x.contractEnv(c, sig, callee, args, bindings)
	pre := st.clone()
	ce := &CEnv{x: x, st: st, old: pre, vars: env, pkg: c.Pkg, fr: fr, entryAllocW: pre.allocW}
	for _, r := range c.Requires {
		t, err := ce.evalBool(r)
		if err != nil {
			x.fail("contract %s requires %q: %v", cname, r.Text, err)
			return
		}
		x.oblige(fr, st, "pre", cname, site.Pos(), t, r.Text)
		st.assume(t)
	}
	// frame
	st.havocAlloc()
	switch {
	case c.Pure:
	case c.HasModifies:
		for _, m := range c.Modifies {
			if err := x.havocLocation(fr, st, pre, ce, m, site.Pos()); err != nil {
				x.fail("contract %s modifies %q: %v", cname, m.Text, err)
				return
			}
		}
	default:
		for _, key := range st.heapKeys() {
			st.havocMap(key)
		}
		st.mapsDirty = true
		if st.dry == nil {
			st.writes = append(st.writes, WriteRec{Key: "*", Pos: x.posOf(site.Pos())})
		} else {
			st.dry.all["*"] = true
		}
		x.loopFrameAll(fr, st, site.Pos())
	}
	for _, g := range c.GhostMod {
		if gv, ok := st.ghost[g]; ok {
			nv := freshVal(gv.T, "g."+g)
			x.assumeWF(st, nv)
			st.ghost[g] = nv
		} else {
			x.fail("contract %s ghostmod: unknown ghost variable %s", cname, g)
			return
		}
	}
	rt := resultType(sig)
	if c.MayPanic {
		st2 := st.clone()
		if c.PanicCond != nil {
			// the panic outcome exists only for arguments satisfying the declared condition
			pce := &CEnv{x: x, st: pre, old: pre, vars: env, pkg: c.Pkg, fr: fr, entryAllocW: pre.allocW}
			t, err := pce.evalBool(c.PanicCond)
			if err != nil {
				x.fail("contract %s maypanic %q: %v", cname, c.PanicCond.Text, err)
				return
			}
			st2.assume(t)
		}
		st2.unwinding = true
		st2.panicPos = x.posOf(site.Pos())
		st2.panicWhat = "panic in " + cname
		fr2 := fr.fork()
		_ = fr2
		k(st2, Val{}, true)
	}
	res := freshVal(rt, "ret")
	if c.Functional {
		var in []*Term
		for _, a := range args {
			in = append(in, a.C...)
		}
		res = Val{T: rt}
		for _, lc := range layoutOf(rt) {
			res.C = append(res.C, UF("fn."+cname+lc.Path, lc.Sort, in...))
		}
	}
	x.assumeWF(st, res)
	x.bindResults(env, c, sig, res)
	ce2 := &CEnv{x: x, st: st, old: pre, vars: env, pkg: c.Pkg, fr: fr, entryAllocW: pre.allocW}
	for _, g := range c.GhostUpdates {
		if err := ce2.ghostUpdate(g); err != nil {
			x.fail("contract %s ghost %q: %v", cname, g.Text, err)
			return
		}
	}
	for _, e := range c.Ensures {
		t, err := ce2.evalBool(e)
		if err != nil {
			if strings.Contains(err.Error(), "not a known closure") {
				continue // clause about the identity of a closure that is opaque here: nothing assumed
			}
			x.fail("contract %s ensures %q: %v", cname, e.Text, err)
			return
		}
		st.assume(t)
	}
	k(st, res, false)
}

func (x *Exec) fail(format string, a ...any) {
	if x.aborted == "" {
		x.aborted = "engine: " + fmt.Sprintf(format, a...)
	}
}

func (x *Exec) contractEnv(c *FuncContract, sig *types.Signature, callee *ssa.Function, args []Val, bindings []Val) map[string]Val {
	env := map[string]Val{}
	if callee != nil {
		for i, p := range callee.Params {
			if i < len(args) {
				a := args[i]
				a.T = p.Type()
				env[p.Name()] = a
			}
		}
		for i, f := range callee.FreeVars {
			if i < len(bindings) {
				env["&"+f.Name()] = bindings[i]
			}
		}
	} else {
		// functype / iface contracts: parameter names from the declaration
		if x.selfVal != nil {
			env["self"] = *x.selfVal
			x.selfVal = nil
		}
		names := c.ParamNames
		off := 0
		if c.Recv != "" {
			env[c.Recv] = args[0]
			off = 1
		}
		for i := 0; i < sig.Params().Len() && i+off < len(args); i++ {
			n := sig.Params().At(i).Name()
			if i < len(names) {
				n = names[i]
			}
			if n != "" && n != "_" {
				a := args[i+off]
				a.T = sig.Params().At(i).Type()
				env[n] = a
			}
		}
	}
	return env
}

func (x *Exec) bindResults(env map[string]Val, c *FuncContract, sig *types.Signature, res Val) {
	n := sig.Results().Len()
	names := resultNames(c, sig)
	switch n {
	case 0:
	case 1:
		env[names[0]] = res
		env["result"] = res
	default:
		for i := 0; i < n; i++ {
			env[names[i]] = tupleElem(Val{T: sig.Results(), C: res.C}, i)
		}
	}
}

func resultNames(c *FuncContract, sig *types.Signature) []string {
	n := sig.Results().Len()
	out := make([]string, n)
	for i := 0; i < n; i++ {
		out[i] = sig.Results().At(i).Name()
		if c != nil && i < len(c.ResultNames) {
			out[i] = c.ResultNames[i]
		}
		if out[i] == "" || out[i] == "_" {
			out[i] = fmt.Sprintf("r%d", i)
		}
	}
	return out
}

// havocLocation havocs the memory named by a modifies clause (evaluated in the pre-state).
func (x *Exec) havocLocation(fr *Frame, st *State, pre *State, ce *CEnv, m *Clause, pos token.Pos) error {
	locs, err := ce.evalLocations(m, pre)
	if err != nil {
		return err
	}
	for _, l := range locs {
		if l.wholeArray {
			h, ok := st.heap[l.key]
			if !ok {
				h = st.heapMap(l.key, l.sort)
			}
			x.loopFrameCheck(fr, st, l.key, l.ref, pos, true, nil)
			st.heap[l.key] = Store(h, l.ref, FreshVar("hv", h.Sort.Elem))
			st.recordWrite(l.key, l.ref, x.posOf(pos))
			continue
		}
		nv := freshVal(l.lv.T, "hv")
		x.assumeWF(st, nv)
		x.checkedStore(fr, st, l.lv, nv, pos)
	}
	return nil
}
