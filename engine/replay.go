package main

// Replay of solver models against the real code: the model's inputs are turned into a Go test that is
// injected into the package with `go test -overlay` (nothing is written into /repo).

import (
	"bytes"
	"context"
	"encoding/json"
	"fmt"
	"math/big"
	"os"
	"os/exec"
	"path/filepath"
	"regexp"
	"strings"
	"text/template"
	"time"
)

type replayResult struct {
	reproduced bool
	file       string
	why        string
}

// ReplayInput names one input of the function under replay as a contract expression over its parameters.
type ReplayInput struct {
	Name string
	Expr string
	Kind string // int | bytes | bool | string
}

type Replayer struct {
	PkgDir   string // directory of the package (relative to the repo root) the test is injected into
	Inputs   []ReplayInput
	Template string // text/template producing the test source; fields: .<Name> per input, .Obligation
	Oracle   string // human description of the property-level oracle
}

var replayers = map[string]*Replayer{}

type ModelValue struct {
	Int   *big.Int
	Bytes []byte
	Bool  bool
	Str   string
}

const maxReplayBytes = 160

// extractModel solves the obligation again asking for the values of the replay inputs.
func extractModel(x *Exec, d Discharge, rp *Replayer, tag string) (map[string]ModelValue, string, error) {
	fr := x.topFrame
	ce := &CEnv{x: x, st: fr.entry.clone(), old: fr.entry, vars: x.topEnvVars, pkg: x.cs.pkgOf(x.top), fr: fr, entryAllocW: fr.entry.allocW}
	type want struct {
		in    ReplayInput
		terms []*Term
	}
	var wants []want
	var all []*Term
	for _, in := range rp.Inputs {
		e, err := parseCExpr(in.Expr)
		if err != nil {
			return nil, "", err
		}
		v, err := ce.eval(e)
		if err != nil {
			return nil, "", fmt.Errorf("replay input %s: %v", in.Name, err)
		}
		w := want{in: in}
		switch in.Kind {
		case "int", "bool":
			w.terms = []*Term{v.C[0]}
		case "bytes":
			sv, err := ce.contentAt(v)
			if err != nil {
				return nil, "", err
			}
			w.terms = []*Term{sv.ln}
			for j := 0; j < maxReplayBytes; j++ {
				w.terms = append(w.terms, sv.at(BVBin("bvadd", sv.base, bv64(int64(j)))))
			}
		case "string":
			sid := v.C[0]
			w.terms = []*Term{slen(sid)}
			for j := 0; j < maxReplayBytes; j++ {
				w.terms = append(w.terms, sbyte(sid, bv64(int64(j))))
			}
		}
		all = append(all, w.terms...)
		wants = append(wants, w)
	}
	as := d.Ob.query()
	// the entry-state terms may mention named arrays
	as = append(as, namedDefs(all)...)
	// prefer small inputs
	var small []*Term
	for _, w := range wants {
		if w.in.Kind == "bytes" || w.in.Kind == "string" {
			small = append(small, BVCmp("bvsle", w.terms[0], bv64(maxReplayBytes)))
		}
	}
	var res SolveResult
	for _, extra := range [][]*Term{small, nil} {
		for _, s := range []Solver{solvers[0], solvers[1]} {
			script := Script(append(append([]*Term{}, as...), extra...), ScriptOpts{NamedValues: all})
			res = runSolver(s, script, tag+".model", 30)
			if res.Status == "sat" {
				break
			}
		}
		if res.Status == "sat" {
			break
		}
	}
	if res.Status != "sat" {
		return nil, res.Output, fmt.Errorf("model extraction: solver says %s", res.Status)
	}
	vals := parseNamedValues(res.Output)
	out := map[string]ModelValue{}
	k := 0
	for _, w := range wants {
		get := func() *big.Int {
			v, ok := vals[k]
			k++
			if !ok {
				return big.NewInt(0)
			}
			return v
		}
		switch w.in.Kind {
		case "int":
			raw := get()
			t := w.terms[0]
			if t.Sort.IsBV() {
				// signed reading
				if raw.Bit(t.Sort.Width-1) == 1 {
					raw = new(big.Int).Sub(raw, new(big.Int).Lsh(big.NewInt(1), uint(t.Sort.Width)))
				}
			}
			out[w.in.Name] = ModelValue{Int: raw}
		case "bool":
			out[w.in.Name] = ModelValue{Bool: get().Sign() != 0}
		case "bytes", "string":
			n := get()
			if !n.IsInt64() || n.Int64() > maxReplayBytes || n.Int64() < 0 {
				return nil, res.Output, fmt.Errorf("model needs %s bytes for %s (cap %d)", n, w.in.Name, maxReplayBytes)
			}
			bs := make([]byte, n.Int64())
			for j := 0; j < maxReplayBytes; j++ {
				b := get()
				if j < len(bs) {
					bs[j] = byte(b.Int64())
				}
			}
			out[w.in.Name] = ModelValue{Bytes: bs, Str: string(bs)}
		}
	}
	return out, res.Output, nil
}

var namedValRe = regexp.MustCompile(`\(mv!(\d+)\s+(#x[0-9a-fA-F]+|#b[01]+|true|false|-?\d+|\(-\s*\d+\))\s*\)`)

func parseNamedValues(out string) map[int]*big.Int {
	m := map[int]*big.Int{}
	for _, mm := range namedValRe.FindAllStringSubmatch(out, -1) {
		var k int
		fmt.Sscanf(mm[1], "%d", &k)
		if v, ok := smtToBig(mm[2]); ok {
			m[k] = v
		}
	}
	return m
}

func goBytes(b []byte) string {
	var sb strings.Builder
	sb.WriteString("[]byte{")
	for i, x := range b {
		if i > 0 {
			sb.WriteString(", ")
		}
		fmt.Fprintf(&sb, "0x%02x", x)
	}
	sb.WriteString("}")
	return sb.String()
}

func tryReplay(l *Loaded, pc *PropConfig, r *FuncResult, d Discharge, dir string) replayResult {
	rp, ok := replayers[r.Func]
	if !ok {
		for k, v := range replayers {
			if strings.HasPrefix(k, "prefix:") && strings.HasPrefix(r.Func, k[7:]) {
				rp, ok = v, true
			}
		}
	}
	if !ok {
		return replayResult{why: "no replay template for " + r.Func}
	}
	tag := sanitize(d.Ob.Name)
	if len(tag) > 80 {
		tag = tag[:80]
	}
	model, solverOut := map[string]ModelValue{}, d.Res.Output
	if len(rp.Inputs) > 0 {
		var err error
		model, solverOut, err = extractModel(r.exec, d, rp, tag)
		if err != nil {
			return replayResult{why: err.Error()}
		}
	}
	data := map[string]any{"Obligation": d.Ob.Name, "Property": pc.ID}
	modelJSON := map[string]any{}
	for _, in := range rp.Inputs {
		mv := model[in.Name]
		switch in.Kind {
		case "int":
			data[in.Name] = mv.Int.String()
			modelJSON[in.Name] = mv.Int.String()
		case "bool":
			data[in.Name] = mv.Bool
			modelJSON[in.Name] = mv.Bool
		case "bytes":
			data[in.Name] = goBytes(mv.Bytes)
			modelJSON[in.Name] = fmt.Sprintf("%x", mv.Bytes)
		case "string":
			data[in.Name] = fmt.Sprintf("%q", mv.Str)
			modelJSON[in.Name] = mv.Str
		}
	}
	tm, err := template.New("t").Parse(rp.Template)
	if err != nil {
		return replayResult{why: "template: " + err.Error()}
	}
	var src bytes.Buffer
	if err := tm.Execute(&src, data); err != nil {
		return replayResult{why: "template: " + err.Error()}
	}
	outcome, testOut := runReplayTest(rp.PkgDir, src.String())
	file := filepath.Join(dir, fmt.Sprintf("%s-%s.json", pc.ID, tag))
	doc := map[string]any{"property": pc.ID, "obligation": d.Ob.Name, "function": r.Func, "model": modelJSON, "oracle": rp.Oracle,
		"package_dir": rp.PkgDir, "test_source": src.String(), "solver_output": truncate(solverOut, 3000), "test_output": truncate(testOut, 4000), "outcome": outcome}
	js, _ := json.MarshalIndent(doc, "", " ")
	os.WriteFile(file, js, 0o644)
	if outcome == "reproduced" {
		return replayResult{reproduced: true, file: file}
	}
	return replayResult{file: file, why: "replay " + outcome}
}

// runScenario runs an input-free witness scenario against the real code.
func runScenario(pc *PropConfig, name string, rp *Replayer, dir string) replayResult {
	tm, err := template.New("t").Parse(rp.Template)
	if err != nil {
		return replayResult{why: err.Error()}
	}
	var src bytes.Buffer
	if err := tm.Execute(&src, map[string]any{"Obligation": "scenario " + name, "Property": pc.ID}); err != nil {
		return replayResult{why: err.Error()}
	}
	outcome, testOut := runReplayTest(rp.PkgDir, src.String())
	file := filepath.Join(dir, fmt.Sprintf("%s-scenario-%s.json", pc.ID, sanitize(name)))
	doc := map[string]any{"property": pc.ID, "obligation": "scenario " + name, "oracle": rp.Oracle, "package_dir": rp.PkgDir,
		"test_source": src.String(), "test_output": truncate(testOut, 4000), "outcome": outcome,
		"reason": "a function under contract could not be bound or an obligation stayed undecided; the property-level witness scenario was run against the real code"}
	js, _ := json.MarshalIndent(doc, "", " ")
	os.WriteFile(file, js, 0o644)
	return replayResult{reproduced: outcome == "reproduced", file: file, why: outcome}
}

// runReplayTest injects the test into the package via -overlay and reports reproduced / not-reproduced / error.
func runReplayTest(pkgDir, src string) (string, string) {
	dir, err := os.MkdirTemp(scratch(), "replay-")
	if err != nil {
		return "error", err.Error()
	}
	defer os.RemoveAll(dir)
	testFile := filepath.Join(dir, "zz_gocv_replay_test.go")
	os.WriteFile(testFile, []byte(src), 0o644)
	target := filepath.Join(repoDir(), pkgDir, "zz_gocv_replay_test.go")
	ov, _ := json.Marshal(map[string]any{"Replace": map[string]string{target: testFile}})
	ovFile := filepath.Join(dir, "overlay.json")
	os.WriteFile(ovFile, ov, 0o644)
	ctx, cancel := context.WithTimeout(context.Background(), 180*time.Second)
	defer cancel()
	cmd := exec.CommandContext(ctx, "go", "test", "-overlay", ovFile, "-vet=off", "-count=1", "-timeout", "60s", "-run", "^TestGocvReplay$", ".")
	cmd.Dir = filepath.Join(repoDir(), pkgDir)
	cmd.Env = append(os.Environ(), "GOFLAGS=-mod=mod", "GOPROXY=off")
	out, err := cmd.CombinedOutput()
	text := string(out)
	switch {
	case strings.Contains(text, "GOCV-REPRODUCED"):
		return "reproduced", text
	case err == nil && strings.Contains(text, "ok"):
		return "not-reproduced", text
	case strings.Contains(text, "GOCV-NOT-REPRODUCED"):
		return "not-reproduced", text
	default:
		return "error", text
	}
}

func cmdReplay(args []string) int {
	if len(args) < 1 {
		fmt.Fprintln(os.Stderr, "replay <file>")
		return 2
	}
	data, err := os.ReadFile(args[0])
	if err != nil {
		fmt.Fprintln(os.Stderr, err)
		return 2
	}
	var doc map[string]any
	if err := json.Unmarshal(data, &doc); err != nil {
		fmt.Fprintln(os.Stderr, err)
		return 2
	}
	src, _ := doc["test_source"].(string)
	pkg, _ := doc["package_dir"].(string)
	if src == "" {
		fmt.Printf("replay file carries no test (outcome %v): %v\n", doc["outcome"], doc["reason"])
		fmt.Println(doc["solver_output"])
		return 1
	}
	outcome, out := runReplayTest(pkg, src)
	fmt.Println(out)
	fmt.Println("outcome:", outcome)
	if outcome == "reproduced" {
		fmt.Printf("VIOLATION property=%v replay=%s\n", doc["property"], args[0])
		return 1
	}
	return 0
}

// ---------------------------------------------------------------------------
// templates

const replayPrelude = `package {{.Pkg}}

import (
	"bytes"
	"fmt"
	"testing"
)

var _ = bytes.Equal
var _ = fmt.Sprint

func gocvCatch(f func()) (p any) {
	defer func() { p = recover() }()
	f()
	return nil
}
`

func init() {
	readerMethod := func(call string, extra ...ReplayInput) *Replayer {
		ins := append([]ReplayInput{{Name: "Buf", Expr: "dec.buf", Kind: "bytes"}}, extra...)
		return &Replayer{PkgDir: "ttlv", Inputs: ins,
			Oracle: "a reader built by newTTLVReader over the model's bytes: the method returns normally (no panic), leaves the input bytes unchanged and gives the same result when repeated",
			Template: strings.Replace(replayPrelude, "{{.Pkg}}", "ttlv", 1) + `
func TestGocvReplay(t *testing.T) {
	buf := {{.Buf}}
	orig := append([]byte(nil), buf...)
	dec, err := newTTLVReader(buf)
	if err != nil {
		t.Log("GOCV-NOT-REPRODUCED: reader rejects the input:", err)
		return
	}
	var r1, r2 string
	if p := gocvCatch(func() { r1 = fmt.Sprint(` + call + `) }); p != nil {
		t.Fatalf("GOCV-REPRODUCED: {{.Obligation}}: panic: %v (input %x)", p, orig)
	}
	if !bytes.Equal(buf, orig) {
		t.Fatalf("GOCV-REPRODUCED: {{.Obligation}}: input buffer modified: %x -> %x", orig, buf)
	}
	dec2, _ := newTTLVReader(buf)
	dec, dec2 = dec2, dec
	if p := gocvCatch(func() { r2 = fmt.Sprint(` + call + `) }); p != nil {
		t.Fatalf("GOCV-REPRODUCED: {{.Obligation}}: panic on second decode: %v", p)
	}
	if r1 != r2 {
		t.Fatalf("GOCV-REPRODUCED: {{.Obligation}}: decoding twice differs: %s vs %s", r1, r2)
	}
}
`}
	}
	tag := ReplayInput{Name: "Tag", Expr: "tag", Kind: "int"}
	for _, m := range []string{"Integer", "LongInteger", "BigInteger", "Bool", "TextString", "ByteString", "DateTime", "Interval"} {
		replayers["(*ttlv.ttlvReader)."+m] = readerMethod("func() []any { a, b := dec."+m+"({{.Tag}}); return []any{a, b} }()", tag)
	}
	for _, m := range []string{"Enum", "Bitmask"} {
		replayers["(*ttlv.ttlvReader)."+m] = readerMethod("func() []any { a, b := dec."+m+"(0, {{.Tag}}); return []any{a, b} }()", tag)
	}
	// Struct: the decoded tree must not depend on any byte outside the declared extents (padding bytes,
	// bytes after the item). An independent walker of the wire format marks the bytes inside declared extents.
	replayers["(*ttlv.ttlvReader).Struct"] = &Replayer{PkgDir: "ttlv", Inputs: []ReplayInput{{Name: "Buf", Expr: "dec.buf", Kind: "bytes"}},
		Oracle: "UnmarshalTTLV of the model's first item into a generic ttlv.Value: no panic, input unchanged, and the same result when (a) every padding byte is altered, (b) different well-formed items follow it",
		Template: strings.Replace(replayPrelude, "{{.Pkg}}", "ttlv", 1) + `
func gocvDecode(b []byte) (s string, p any) {
	p = gocvCatch(func() {
		var v Value
		err := UnmarshalTTLV(b, &v)
		s = fmt.Sprintf("%#v|%v", v, err != nil)
	})
	return
}

// gocvMark marks header and value bytes of the items in b[lo:hi) (children only within the declared length).
func gocvMark(b []byte, lo, hi int, used []bool) {
	for lo+8 <= hi {
		l := int(b[lo+4])<<24 | int(b[lo+5])<<16 | int(b[lo+6])<<8 | int(b[lo+7])
		for i := lo; i < lo+8; i++ {
			used[i] = true
		}
		end := lo + 8 + l
		if end > hi {
			end = hi
		}
		if b[lo+3] == 1 {
			gocvMark(b, lo+8, end, used)
		} else {
			for i := lo + 8; i < end; i++ {
				used[i] = true
			}
		}
		lo = lo + 8 + (l+7)/8*8
	}
}

func TestGocvReplay(t *testing.T) {
	buf := {{.Buf}}
	if len(buf) < 8 {
		t.Log("GOCV-NOT-REPRODUCED: too short")
		return
	}
	l := int(buf[4])<<24 | int(buf[5])<<16 | int(buf[6])<<8 | int(buf[7])
	ext := 8 + (l+7)/8*8
	if ext > len(buf) {
		t.Log("GOCV-NOT-REPRODUCED: truncated item")
		return
	}
	iso := append([]byte(nil), buf[:ext]...)
	orig := append([]byte(nil), iso...)
	s0, p := gocvDecode(iso)
	if p != nil {
		t.Fatalf("GOCV-REPRODUCED: {{.Obligation}}: panic: %v (input %x)", p, orig)
	}
	if !bytes.Equal(iso, orig) {
		t.Fatalf("GOCV-REPRODUCED: {{.Obligation}}: input buffer modified")
	}
	used := make([]bool, len(iso))
	gocvMark(iso, 0, 8+l, used)
	flipped := append([]byte(nil), iso...)
	for i := range flipped {
		if !used[i] {
			flipped[i] ^= 0xFF
		}
	}
	x1 := []byte{0x42, 0, 1, 2, 0, 0, 0, 4, 0, 0, 0, 1, 0, 0, 0, 0}
	x2 := []byte{0x42, 0, 2, 7, 0, 0, 0, 3, 'a', 'b', 'c', 0, 0, 0, 0, 0}
	for name, variant := range map[string][]byte{"padding bytes altered": flipped, "followed by an Integer item": append(append([]byte(nil), iso...), x1...), "followed by a TextString item": append(append([]byte(nil), iso...), x2...)} {
		s, p := gocvDecode(variant)
		if p != nil {
			t.Fatalf("GOCV-REPRODUCED: {{.Obligation}}: panic with %s: %v", name, p)
		}
		if s != s0 {
			t.Fatalf("GOCV-REPRODUCED: {{.Obligation}}: the decoded tree depends on bytes outside the declared extent (%s):\n alone:   %s\n variant: %s\n input %x", name, s0, s, orig)
		}
	}
}
`}
	// generic: whatever the reader core accepts must decode through the public API without panic
	decodeOracle := func(expr string) *Replayer {
		return &Replayer{PkgDir: "ttlv", Inputs: []ReplayInput{{Name: "Buf", Expr: expr, Kind: "bytes"}},
			Oracle: "UnmarshalTTLV of the model's bytes into a generic ttlv.Value returns normally, leaves the input unchanged and is repeatable",
			Template: strings.Replace(replayPrelude, "{{.Pkg}}", "ttlv", 1) + `
func TestGocvReplay(t *testing.T) {
	buf := {{.Buf}}
	orig := append([]byte(nil), buf...)
	var s1, s2 string
	dec := func(out *string) any {
		return gocvCatch(func() {
			var v Value
			err := UnmarshalTTLV(buf, &v)
			*out = fmt.Sprintf("%#v|%v", v, err)
		})
	}
	if p := dec(&s1); p != nil {
		t.Fatalf("GOCV-REPRODUCED: {{.Obligation}}: panic: %v (input %x)", p, orig)
	}
	if !bytes.Equal(buf, orig) {
		t.Fatalf("GOCV-REPRODUCED: {{.Obligation}}: input buffer modified")
	}
	if p := dec(&s2); p != nil || s1 != s2 {
		t.Fatalf("GOCV-REPRODUCED: {{.Obligation}}: second decode differs: %v %s vs %s", p, s1, s2)
	}
}
`}
	}
	replayers["(*ttlv.ttlvReader).validate"] = decodeOracle("dec.buf")
	replayers["(*ttlv.ttlvReader).Next"] = decodeOracle("dec.buf")
	replayers["(*ttlv.ttlvReader).value"] = decodeOracle("dec.buf")
	replayers["(*ttlv.ttlvReader).assertType"] = decodeOracle("dec.buf")
	replayers["ttlv.newTTLVReader"] = decodeOracle("buf")
	// Stream.Recv: the failing obligations are about loop states; the witness is searched over a small family
	// of scripted transports (every chunking of one or two messages into <= 4 reads, each read optionally
	// reporting an error together with its data, optional (0, nil) reads, truncation at every offset).
	replayers["(*ttlv.Stream).Recv"] = &Replayer{PkgDir: "ttlv", Inputs: nil,
		Oracle: "scripted io.Reader family: Recv returns exactly the sent messages in order, consumes exactly their bytes, returns an error for a truncated stream, returns the message whenever the transport delivered all of its bytes (even if the last Read also reports an error), and rejects an announced size above max",
		Template: strings.Replace(replayPrelude, "{{.Pkg}}", "ttlv", 1) + `
type gocvStep struct {
	n   int
	err error
}

type gocvScripted struct {
	data  []byte
	pos   int
	steps []gocvStep
	k     int
	maxAsk int
}

func (s *gocvScripted) Read(p []byte) (int, error) {
	if len(p) > s.maxAsk {
		s.maxAsk = len(p)
	}
	if s.k >= len(s.steps) {
		return 0, fmt.Errorf("script exhausted")
	}
	st := s.steps[s.k]
	s.k++
	n := st.n
	if n > len(p) {
		n = len(p)
	}
	if n > len(s.data)-s.pos {
		n = len(s.data) - s.pos
	}
	copy(p, s.data[s.pos:s.pos+n])
	s.pos += n
	return n, st.err
}
func (s *gocvScripted) Write(p []byte) (int, error) { return len(p), nil }
func (s *gocvScripted) Close() error                { return nil }

func TestGocvReplay(t *testing.T) {
	msgA := MarshalTTLV(Value{Tag: 0x420001, Value: int32(7)})
	msgB := MarshalTTLV(Value{Tag: 0x420002, Value: "hello world, this is a text"})
	eof := fmt.Errorf("EOF-with-data")
	for _, msgs := range [][][]byte{ {msgA}, {msgB}, {msgA, msgB}, {msgB, msgA} } {
		var all []byte
		for _, m := range msgs {
			all = append(all, m...)
		}
		// chunkings: cut points c1 <= c2 <= c3 within the stream
		for c1 := 0; c1 <= len(all); c1++ {
			for _, c2 := range []int{c1, (c1 + len(all)) / 2, len(all)} {
				for errAt := -1; errAt < 3; errAt++ {
					cuts := []int{c1, c2, len(all)}
					var steps []gocvStep
					prev := 0
					for i, c := range cuts {
						if c < prev {
							c = prev
						}
						var e error
						if i == errAt {
							e = eof
						}
						steps = append(steps, gocvStep{c - prev, e})
						prev = c
					}
					sc := &gocvScripted{data: all, steps: steps}
					st := NewStream(sc, 0)
					delivered := func() int { return sc.pos }
					consumedBefore := 0
					for mi, m := range msgs {
						var v Value
						var err error
						if p := gocvCatch(func() { err = st.Recv(&v) }); p != nil {
							t.Fatalf("GOCV-REPRODUCED: {{.Obligation}}: panic %v", p)
						}
						end := consumedBefore + len(m)
						if err == nil {
							if sc.pos != end {
								t.Fatalf("GOCV-REPRODUCED: {{.Obligation}}: message %d returned but %d bytes consumed instead of %d (steps %v)", mi, sc.pos, end, steps)
							}
							if !bytes.Equal(MarshalTTLV(v), m) {
								t.Fatalf("GOCV-REPRODUCED: {{.Obligation}}: message %d altered (steps %v)", mi, steps)
							}
							consumedBefore = end
							continue
						}
						if delivered() >= end {
							t.Fatalf("GOCV-REPRODUCED: {{.Obligation}}: transport delivered all %d bytes of message %d but Recv returned %v (reads %v)", len(m), mi, err, steps)
						}
						break
					}
				}
			}
		}
	}
	// announced size above the limit: rejected, and the reader is never asked for the announced amount
	big := []byte{0x42, 0, 1, 8, 0x00, 0x10, 0x00, 0x00}
	sc := &gocvScripted{data: append(big, make([]byte, 64)...), steps: []gocvStep{ {8, nil}, {64, nil}, {64, nil} }}
	st := NewStream(sc, 4096)
	var v Value
	if err := st.Recv(&v); err == nil || sc.maxAsk > 4096 {
		t.Fatalf("GOCV-REPRODUCED: {{.Obligation}}: announced 1 MiB with max 4096: err=%v, largest read request %d", err, sc.maxAsk)
	}
}
`}
	// middleware chains (C19): witness scenarios with instrumented stages
	serverChain := &Replayer{PkgDir: "kmipserver", Oracle: "2-stage server message chain: stage 0 invokes the continuation twice with a substituted message; stage 1 and the core handler must each run twice and see the substituted message",
		Template: `package kmipserver

import (
	"context"
	"testing"

	"github.com/ovh/kmip-go"
	"github.com/ovh/kmip-go/payloads"
)

func gocvMsg(id string) *kmip.RequestMessage {
	m := kmip.NewRequestMessage(kmip.V1_4, &payloads.ActivateRequestPayload{UniqueIdentifier: id})
	return &m
}

func TestGocvReplay(t *testing.T) {
	exec := NewBatchExecutor()
	var s1runs, coreRuns int
	var s1ids, coreIDs []string
	exec.Route(kmip.OperationActivate, HandleFunc(func(ctx context.Context, req *payloads.ActivateRequestPayload) (*payloads.ActivateResponsePayload, error) {
		coreRuns++
		coreIDs = append(coreIDs, req.UniqueIdentifier)
		return &payloads.ActivateResponsePayload{UniqueIdentifier: req.UniqueIdentifier}, nil
	}))
	alt := gocvMsg("alt")
	exec.Use(func(next Next, ctx context.Context, msg *kmip.RequestMessage) (*kmip.ResponseMessage, error) {
		next(ctx, alt)
		return next(ctx, alt)
	}, func(next Next, ctx context.Context, msg *kmip.RequestMessage) (*kmip.ResponseMessage, error) {
		s1runs++
		s1ids = append(s1ids, msg.BatchItem[0].RequestPayload.(*payloads.ActivateRequestPayload).UniqueIdentifier)
		return next(ctx, msg)
	})
	exec.HandleRequest(context.Background(), gocvMsg("orig"))
	if s1runs != 2 || coreRuns != 2 {
		t.Fatalf("GOCV-REPRODUCED: {{.Obligation}}: stage 0 invoked the continuation twice, but stage 1 ran %d time(s) and the core handler %d time(s)", s1runs, coreRuns)
	}
	for _, id := range append(s1ids, coreIDs...) {
		if id != "alt" {
			t.Fatalf("GOCV-REPRODUCED: {{.Obligation}}: inner stages did not receive the message passed on by their predecessor: stage 1 saw %v, core saw %v", s1ids, coreIDs)
		}
	}
}
`}
	replayers["(*kmipserver.BatchExecutor).HandleRequest$1"] = serverChain
	replayers["(*kmipserver.BatchExecutor).nextAt$1"] = serverChain
	replayers["(*kmipserver.BatchExecutor).HandleRequest"] = serverChain
	itemChain := &Replayer{PkgDir: "kmipserver", Oracle: "2-stage batch-item chain: stage 0 invokes the continuation twice; stage 1 and the handler must run twice; a stage short-circuiting with (nil, err) must yield a failed item, not a panic",
		Template: `package kmipserver

import (
	"context"
	"errors"
	"testing"

	"github.com/ovh/kmip-go"
	"github.com/ovh/kmip-go/payloads"
)

func TestGocvReplay(t *testing.T) {
	mk := func() (*BatchExecutor, *int) {
		exec := NewBatchExecutor()
		n := new(int)
		exec.Route(kmip.OperationActivate, HandleFunc(func(ctx context.Context, req *payloads.ActivateRequestPayload) (*payloads.ActivateResponsePayload, error) {
			*n++
			return &payloads.ActivateResponsePayload{UniqueIdentifier: req.UniqueIdentifier}, nil
		}))
		return exec, n
	}
	msg := kmip.NewRequestMessage(kmip.V1_4, &payloads.ActivateRequestPayload{UniqueIdentifier: "x"})
	{
		exec, core := mk()
		s1 := 0
		exec.BatchItemUse(func(next BatchItemNext, ctx context.Context, bi *kmip.RequestBatchItem) (*kmip.ResponseBatchItem, error) {
			next(ctx, bi)
			return next(ctx, bi)
		}, func(next BatchItemNext, ctx context.Context, bi *kmip.RequestBatchItem) (*kmip.ResponseBatchItem, error) {
			s1++
			return next(ctx, bi)
		})
		exec.HandleRequest(context.Background(), &msg)
		if s1 != 2 || *core != 2 {
			t.Fatalf("GOCV-REPRODUCED: {{.Obligation}}: stage 0 invoked the continuation twice, but stage 1 ran %d time(s) and the handler %d time(s)", s1, *core)
		}
	}
	{
		exec, _ := mk()
		exec.BatchItemUse(func(next BatchItemNext, ctx context.Context, bi *kmip.RequestBatchItem) (*kmip.ResponseBatchItem, error) {
			return nil, errors.New("denied")
		})
		var resp *kmip.ResponseMessage
		func() {
			defer func() {
				if p := recover(); p != nil {
					t.Fatalf("GOCV-REPRODUCED: {{.Obligation}}: a batch-item middleware short-circuiting with (nil, err) makes the server panic: %v", p)
				}
			}()
			resp = exec.HandleRequest(context.Background(), &msg)
		}()
		if resp == nil || len(resp.BatchItem) != 1 || resp.BatchItem[0].ResultStatus != kmip.ResultStatusOperationFailed {
			t.Fatalf("GOCV-REPRODUCED: {{.Obligation}}: short-circuit with an error is not reported as a failed item: %+v", resp)
		}
	}
}
`}
	replayers["(*kmipserver.BatchExecutor).executeItemWithMiddleware$1"] = itemChain
	replayers["(*kmipserver.BatchExecutor).executeItemWithMiddleware"] = itemChain
	replayers["(*kmipserver.BatchExecutor).itemNextAt$1"] = itemChain
	clientChain := &Replayer{PkgDir: "kmipclient", Oracle: "2-stage client chain: stage 0 invokes the continuation twice; stage 1 (which answers itself) must run twice and receive the message passed on",
		Template: `package kmipclient

import (
	"context"
	"testing"

	"github.com/ovh/kmip-go"
	"github.com/ovh/kmip-go/payloads"
)

func TestGocvReplay(t *testing.T) {
	c := &Client{}
	alt := kmip.NewRequestMessage(kmip.V1_4, &payloads.ActivateRequestPayload{UniqueIdentifier: "alt"})
	orig := kmip.NewRequestMessage(kmip.V1_4, &payloads.ActivateRequestPayload{UniqueIdentifier: "orig"})
	s1 := 0
	var seen []*kmip.RequestMessage
	c.middlewares = []Middleware{
		func(next Next, ctx context.Context, msg *kmip.RequestMessage) (*kmip.ResponseMessage, error) {
			next(ctx, &alt)
			return next(ctx, &alt)
		},
		func(next Next, ctx context.Context, msg *kmip.RequestMessage) (*kmip.ResponseMessage, error) {
			s1++
			seen = append(seen, msg)
			return &kmip.ResponseMessage{}, nil
		},
	}
	var p any
	func() {
		defer func() { p = recover() }()
		c.Roundtrip(context.Background(), &orig)
	}()
	if s1 != 2 {
		t.Fatalf("GOCV-REPRODUCED: {{.Obligation}}: stage 0 invoked the continuation twice, but stage 1 ran %d time(s) (panic: %v)", s1, p)
	}
	for _, m := range seen {
		if m != &alt {
			t.Fatalf("GOCV-REPRODUCED: {{.Obligation}}: stage 1 did not receive the message passed on by stage 0")
		}
	}
}
`}
	replayers["(*kmipclient.Client).Roundtrip$1"] = clientChain
	replayers["(*kmipclient.Client).nextAt$1"] = clientChain
	// batch semantics (C09): exhaustive small batches against an executable reading of the property
	replayers["scenario:C09"] = &Replayer{PkgDir: "kmipserver", Oracle: "all batches of length <= 3 x option {unset, Continue, Stop, Undo} x per-item outcome {ok, typed error, plain error, panic, unrouted, critical extension} x IDs present/absent x count match/mismatch x version supported/unsupported, judged by the statement of the property",
		Template: `package kmipserver

import (
	"context"
	"errors"
	"fmt"
	"testing"

	"github.com/ovh/kmip-go"
	"github.com/ovh/kmip-go/payloads"
)

func TestGocvReplay(t *testing.T) {
	outcomes := []string{"ok", "kmiperr", "err", "panic", "unrouted", "critical"}
	opts := []kmip.BatchErrorContinuationOption{0, kmip.BatchErrorContinuationOptionContinue, kmip.BatchErrorContinuationOptionStop, kmip.BatchErrorContinuationOptionUndo}
	for n := 0; n <= 3; n++ {
		total := 1
		for i := 0; i < n; i++ {
			total *= len(outcomes)
		}
		for code := 0; code < total; code++ {
			for _, opt := range opts {
				for variant := 0; variant < 4; variant++ {
					plan := make([]string, n)
					c := code
					for i := range plan {
						plan[i] = outcomes[c%len(outcomes)]
						c /= len(outcomes)
					}
					runs := make([]int, n)
					order := []int{}
					exec := NewBatchExecutor()
					exec.Route(kmip.OperationActivate, HandleFunc(func(ctx context.Context, req *payloads.ActivateRequestPayload) (*payloads.ActivateResponsePayload, error) {
						var idx int
						fmt.Sscanf(req.UniqueIdentifier, "%d", &idx)
						runs[idx]++
						order = append(order, idx)
						switch plan[idx] {
						case "kmiperr":
							return nil, ErrItemNotFound
						case "err":
							return nil, errors.New("boom")
						case "panic":
							// the recovered value may be of any type
							switch (idx + code) % 4 {
							case 0:
								panic("boom")
							case 1:
								panic(errors.New("boom"))
							case 2:
								panic(42)
							default:
								panic(struct{ A []byte }{A: []byte("boom")})
							}
						}
						return &payloads.ActivateResponsePayload{UniqueIdentifier: req.UniqueIdentifier}, nil
					}))
					req := &kmip.RequestMessage{Header: kmip.RequestHeader{ProtocolVersion: kmip.V1_3, BatchErrorContinuationOption: opt, BatchCount: int32(n)}}
					for i := 0; i < n; i++ {
						bi := kmip.RequestBatchItem{Operation: kmip.OperationActivate, RequestPayload: &payloads.ActivateRequestPayload{UniqueIdentifier: fmt.Sprint(i)}}
						if i%2 == 0 {
							bi.UniqueBatchItemID = []byte{byte(i + 1)}
						}
						switch plan[i] {
						case "unrouted":
							bi.Operation = kmip.OperationRevoke
							bi.RequestPayload = &payloads.RevokeRequestPayload{UniqueIdentifier: fmt.Sprint(i)}
						case "critical":
							bi.MessageExtension = &kmip.MessageExtension{VendorIdentification: "x", CriticalityIndicator: true, VendorExtension: nil}
						}
						req.BatchItem = append(req.BatchItem, bi)
					}
					reject := opt == kmip.BatchErrorContinuationOptionUndo
					if variant == 1 {
						req.Header.BatchCount++
						reject = true
					}
					if variant == 2 {
						req.Header.ProtocolVersion = kmip.ProtocolVersion{ProtocolVersionMajor: 9, ProtocolVersionMinor: 9}
						reject = true
					}
					if variant == 3 && n == 0 {
						continue
					}
					desc := fmt.Sprintf("plan=%v opt=%d variant=%d", plan, opt, variant)
					var resp *kmip.ResponseMessage
					func() {
						defer func() {
							if p := recover(); p != nil {
								t.Fatalf("GOCV-REPRODUCED: {{.Obligation}}: HandleRequest panicked (%s): %v", desc, p)
							}
						}()
						resp = exec.HandleRequest(context.Background(), req)
					}()
					executed := 0
					for _, r := range runs {
						executed += r
					}
					if reject {
						if executed != 0 || resp == nil || len(resp.BatchItem) != 1 || resp.BatchItem[0].ResultStatus != kmip.ResultStatusOperationFailed || resp.Header.BatchCount != 1 {
							t.Fatalf("GOCV-REPRODUCED: {{.Obligation}}: request that must be rejected (%s): %d handler runs, response %+v", desc, executed, resp)
						}
						continue
					}
					if resp == nil || len(resp.BatchItem) != n || int(resp.Header.BatchCount) != n || resp.Header.ProtocolVersion != req.Header.ProtocolVersion {
						t.Fatalf("GOCV-REPRODUCED: {{.Obligation}}: wrong response shape (%s): %+v", desc, resp)
					}
					failedBefore := false
					for i := 0; i < n; i++ {
						ri := resp.BatchItem[i]
						if ri.Operation != req.BatchItem[i].Operation || string(ri.UniqueBatchItemID) != string(req.BatchItem[i].UniqueBatchItemID) {
							t.Fatalf("GOCV-REPRODUCED: {{.Obligation}}: item %d does not echo operation/ID (%s): %+v", i, desc, ri)
						}
						isHandler := plan[i] == "ok" || plan[i] == "kmiperr" || plan[i] == "err" || plan[i] == "panic"
						wantRuns := 0
						if isHandler {
							wantRuns = 1
						}
						stop := opt == kmip.BatchErrorContinuationOptionStop
						if stop && failedBefore {
							wantRuns = 0
							if ri.ResultStatus != kmip.ResultStatusOperationFailed {
								t.Fatalf("GOCV-REPRODUCED: {{.Obligation}}: item %d after the first failed one is reported successful under Stop (%s)", i, desc)
							}
						}
						if runs[i] != wantRuns {
							t.Fatalf("GOCV-REPRODUCED: {{.Obligation}}: item %d handler ran %d time(s), expected %d (%s)", i, runs[i], wantRuns, desc)
						}
						wantFail := plan[i] != "ok" || (stop && failedBefore)
						if (ri.ResultStatus == kmip.ResultStatusOperationFailed) != wantFail {
							t.Fatalf("GOCV-REPRODUCED: {{.Obligation}}: item %d status %v, expected failed=%v (%s)", i, ri.ResultStatus, wantFail, desc)
						}
						if ri.ResultStatus == kmip.ResultStatusOperationFailed {
							failedBefore = true
						}
					}
					for i := 1; i < len(order); i++ {
						if order[i] <= order[i-1] {
							t.Fatalf("GOCV-REPRODUCED: {{.Obligation}}: handlers ran out of order %v (%s)", order, desc)
						}
					}
				}
			}
		}
	}
}
`}
	for _, fn := range []string{"(*kmipserver.BatchExecutor).handleRequest", "(*kmipserver.BatchExecutor).executeItem"} {
		replayers[fn] = replayers["scenario:C09"]
	}
	// version negotiation (C13): exhaustive client subsets x server lists x server behaviours, scripted through a terminal middleware
	replayers["scenario:C13"] = &Replayer{PkgDir: "kmipclient", Oracle: "all 31 non-empty client subsets of {1.0..1.4} x all 32 server subsets (descending, ascending and rotated order; plus versions the client did not offer) x {conformant, discovery unsupported, empty list}: adopted version = highest common version, error when none, fallback to 1.0 only if configured",
		Template: `package kmipclient

import (
	"context"
	"testing"

	"github.com/ovh/kmip-go"
	"github.com/ovh/kmip-go/payloads"
	"github.com/ovh/kmip-go/ttlv"
)

func TestGocvReplay(t *testing.T) {
	all := []kmip.ProtocolVersion{kmip.V1_4, kmip.V1_3, kmip.V1_2, kmip.V1_1, kmip.V1_0}
	extra := kmip.ProtocolVersion{ProtocolVersionMajor: 2, ProtocolVersionMinor: 0}
	subset := func(mask int) []kmip.ProtocolVersion {
		var out []kmip.ProtocolVersion
		for i, v := range all {
			if mask&(1<<i) != 0 {
				out = append(out, v)
			}
		}
		return out
	}
	for cm := 1; cm < 32; cm++ {
		client := subset(cm)
		for sm := 0; sm < 32; sm++ {
			for order := 0; order < 4; order++ {
				server := subset(sm)
				switch order {
				case 1: // ascending
					for i, j := 0, len(server)-1; i < j; i, j = i+1, j-1 {
						server[i], server[j] = server[j], server[i]
					}
				case 2: // rotated
					if len(server) > 1 {
						server = append(server[1:], server[0])
					}
				case 3: // a version the client never offered comes first
					server = append([]kmip.ProtocolVersion{extra}, server...)
				}
				var best *kmip.ProtocolVersion
				for _, v := range server {
					for _, w := range client {
						if v == w && (best == nil || ttlv.CompareVersions(v, *best) > 0) {
							vv := v
							best = &vv
						}
					}
				}
				c := &Client{supportedVersions: client}
				c.middlewares = []Middleware{func(next Next, ctx context.Context, msg *kmip.RequestMessage) (*kmip.ResponseMessage, error) {
					return &kmip.ResponseMessage{Header: kmip.ResponseHeader{ProtocolVersion: msg.Header.ProtocolVersion, BatchCount: 1},
						BatchItem: []kmip.ResponseBatchItem{ {Operation: kmip.OperationDiscoverVersions, ResultStatus: kmip.ResultStatusSuccess, ResponsePayload: &payloads.DiscoverVersionsResponsePayload{ProtocolVersion: server}} }}, nil
				}}
				var err error
				func() {
					defer func() {
						if p := recover(); p != nil {
							t.Fatalf("GOCV-REPRODUCED: {{.Obligation}}: negotiateVersion panicked (client %v server %v): %v", client, server, p)
						}
					}()
					err = c.negotiateVersion(context.Background())
				}()
				if best == nil {
					if err == nil {
						t.Fatalf("GOCV-REPRODUCED: {{.Obligation}}: no common version (client %v, server %v) but the client adopted %v", client, server, *c.version)
					}
					continue
				}
				if err != nil || c.version == nil || *c.version != *best {
					got := "nil"
					if c.version != nil {
						got = c.version.String()
					}
					t.Fatalf("GOCV-REPRODUCED: {{.Obligation}}: client %v, server %v: adopted %s (err %v), expected the highest common version %v", client, server, got, err, *best)
				}
			}
		}
		// discovery unsupported
		c := &Client{supportedVersions: client}
		c.middlewares = []Middleware{func(next Next, ctx context.Context, msg *kmip.RequestMessage) (*kmip.ResponseMessage, error) {
			return &kmip.ResponseMessage{Header: kmip.ResponseHeader{BatchCount: 1}, BatchItem: []kmip.ResponseBatchItem{ {ResultStatus: kmip.ResultStatusOperationFailed, ResultReason: kmip.ResultReasonOperationNotSupported} }}, nil
		}}
		err := c.negotiateVersion(context.Background())
		has10 := cm&(1<<4) != 0
		if has10 != (err == nil) || (err == nil && *c.version != kmip.V1_0) {
			t.Fatalf("GOCV-REPRODUCED: {{.Obligation}}: discovery unsupported, client %v: err=%v version=%v", client, err, c.version)
		}
	}
}
`}
	replayers["(*kmipclient.Client).negotiateVersion"] = replayers["scenario:C13"]
	// protocol-violating responses (C12)
	replayers["scenario:C12"] = &Replayer{PkgDir: "kmipclient", Oracle: "scripted responses (nil payload, payload of another operation, typed-nil payload, wrong header/item counts, every failure status) to Request / Batch / Executor / negotiateVersion: always an error or the payload type of the requested operation, never a panic",
		Template: `package kmipclient

import (
	"context"
	"fmt"
	"testing"

	"github.com/ovh/kmip-go"
	"github.com/ovh/kmip-go/payloads"
)

func TestGocvReplay(t *testing.T) {
	var nilDiscover *payloads.DiscoverVersionsResponsePayload
	pls := map[string]kmip.OperationPayload{"nil": nil, "right": &payloads.ActivateResponsePayload{UniqueIdentifier: "x"}, "other-op": &payloads.DestroyResponsePayload{UniqueIdentifier: "x"},
		"request-type": &payloads.ActivateRequestPayload{UniqueIdentifier: "x"}, "typed-nil-discover": nilDiscover, "discover": &payloads.DiscoverVersionsResponsePayload{}}
	statuses := []kmip.ResultStatus{kmip.ResultStatusSuccess, kmip.ResultStatusOperationFailed, kmip.ResultStatusOperationPending, kmip.ResultStatusOperationUndone, 77}
	for name, pl := range pls {
		for _, st := range statuses {
			for _, shape := range []string{"ok", "count0", "count2", "noitems", "twoitems"} {
				resp := &kmip.ResponseMessage{Header: kmip.ResponseHeader{BatchCount: 1}, BatchItem: []kmip.ResponseBatchItem{ {Operation: kmip.OperationActivate, ResultStatus: st, ResultReason: kmip.ResultReasonGeneralFailure, ResultMessage: "m", ResponsePayload: pl} }}
				switch shape {
				case "count0":
					resp.Header.BatchCount = 0
				case "count2":
					resp.Header.BatchCount = 2
				case "noitems":
					resp.BatchItem = nil
				case "twoitems":
					resp.BatchItem = append(resp.BatchItem, resp.BatchItem[0])
					resp.Header.BatchCount = 2
				}
				desc := fmt.Sprintf("payload=%s status=%d shape=%s", name, st, shape)
				v := kmip.V1_4
				c := &Client{supportedVersions: []kmip.ProtocolVersion{kmip.V1_4}, version: &v}
				c.middlewares = []Middleware{func(next Next, ctx context.Context, msg *kmip.RequestMessage) (*kmip.ResponseMessage, error) { return resp, nil }}
				func() {
					defer func() {
						if p := recover(); p != nil {
							t.Fatalf("GOCV-REPRODUCED: {{.Obligation}}: client call panicked on a protocol-violating response (%s): %v", desc, p)
						}
					}()
					r, err := c.Activate("x").ExecContext(context.Background())
					good := name == "right" && st == kmip.ResultStatusSuccess && shape == "ok"
					if good != (err == nil) {
						t.Fatalf("GOCV-REPRODUCED: {{.Obligation}}: Activate with %s: err=%v result=%v", desc, err, r)
					}
					if st != kmip.ResultStatusSuccess && shape == "ok" && err == nil {
						t.Fatalf("GOCV-REPRODUCED: {{.Obligation}}: failed item not surfaced as an error (%s)", desc)
					}
					c2 := &Client{supportedVersions: []kmip.ProtocolVersion{kmip.V1_4}, middlewares: c.middlewares}
					_ = c2.negotiateVersion(context.Background())
					// the untyped calls: a payload is returned as success only if it belongs to the requested operation
					// (a request-type payload of the right operation cannot be told apart without the static type)
					ur, uerr := c.Request(context.Background(), &payloads.ActivateRequestPayload{UniqueIdentifier: "x"})
					ugood := (name == "right" || name == "request-type") && st == kmip.ResultStatusSuccess && shape == "ok"
					if ugood != (uerr == nil) {
						t.Fatalf("GOCV-REPRODUCED: {{.Obligation}}: Request(Activate) with %s: err=%v result=%T", desc, uerr, ur)
					}
					if uerr == nil && (ur == nil || ur.Operation() != kmip.OperationActivate) {
						t.Fatalf("GOCV-REPRODUCED: {{.Obligation}}: Request(Activate) returned a payload of another operation as success (%s): %T", desc, ur)
					}
					br, berr := c.Batch(context.Background(), &payloads.ActivateRequestPayload{UniqueIdentifier: "x"})
					if berr == nil {
						for _, it := range br {
							if it.ResultStatus == kmip.ResultStatusSuccess && it.ResponsePayload != nil && it.ResponsePayload.Operation() != kmip.OperationActivate {
								t.Fatalf("GOCV-REPRODUCED: {{.Obligation}}: Batch(Activate) handed back a successful item with the payload of another operation (%s): %T", desc, it.ResponsePayload)
							}
						}
					}
				}()
			}
		}
	}
}
`}
	replayers["scenario:C12-signer"] = &Replayer{PkgDir: "kmipclient", Oracle: "a scripted server describes a key pair with every combination of announced algorithm (RSA, EC, ECDSA) and actual public key material (RSA, ECDSA P-256) and returns signatures of several lengths: Client.Signer and the signer's Sign return a value or an error, never panic",
		Template: `package kmipclient

import (
	"context"
	"crypto"
	"crypto/ecdsa"
	"crypto/elliptic"
	"crypto/rand"
	"crypto/rsa"
	"crypto/x509"
	"fmt"
	"testing"

	"github.com/ovh/kmip-go"
	"github.com/ovh/kmip-go/payloads"
)

func TestGocvReplay(t *testing.T) {
	rk, _ := rsa.GenerateKey(rand.Reader, 1024)
	ek, _ := ecdsa.GenerateKey(elliptic.P256(), rand.Reader)
	rder, _ := x509.MarshalPKIXPublicKey(&rk.PublicKey)
	eder, _ := x509.MarshalPKIXPublicKey(&ek.PublicKey)
	pubObj := func(der []byte, alg kmip.CryptographicAlgorithm) *kmip.PublicKey {
		return &kmip.PublicKey{KeyBlock: kmip.KeyBlock{KeyFormatType: kmip.KeyFormatTypeX_509, KeyValue: &kmip.KeyValue{Plain: &kmip.PlainKeyValue{KeyMaterial: kmip.KeyMaterial{Bytes: &der}}}, CryptographicAlgorithm: alg}}
	}
	for _, alg := range []kmip.CryptographicAlgorithm{kmip.CryptographicAlgorithmRSA, kmip.CryptographicAlgorithmEC, kmip.CryptographicAlgorithmECDSA} {
		for keyKind, der := range map[string][]byte{"rsa": rder, "ecdsa": eder} {
			for _, siglen := range []int{0, 64, 71, 128} {
				desc := fmt.Sprintf("announced algorithm %d, public key material %s, signature of %d bytes", alg, keyKind, siglen)
				v := kmip.V1_4
				c := &Client{supportedVersions: []kmip.ProtocolVersion{kmip.V1_4}, version: &v}
				c.middlewares = []Middleware{func(next Next, ctx context.Context, msg *kmip.RequestMessage) (*kmip.ResponseMessage, error) {
					resp := &kmip.ResponseMessage{Header: kmip.ResponseHeader{BatchCount: 1}}
					for _, bi := range msg.BatchItem {
						item := kmip.ResponseBatchItem{Operation: bi.Operation, ResultStatus: kmip.ResultStatusSuccess}
						switch req := bi.RequestPayload.(type) {
						case *payloads.GetAttributesRequestPayload:
							ot, mask, link := kmip.ObjectTypePrivateKey, kmip.CryptographicUsageSign, kmip.Link{LinkType: kmip.LinkTypePublicKeyLink, LinkedObjectIdentifier: "pub"}
							if req.UniqueIdentifier == "pub" {
								ot, mask, link = kmip.ObjectTypePublicKey, kmip.CryptographicUsageVerify, kmip.Link{LinkType: kmip.LinkTypePrivateKeyLink, LinkedObjectIdentifier: "priv"}
							}
							item.ResponsePayload = &payloads.GetAttributesResponsePayload{UniqueIdentifier: req.UniqueIdentifier, Attribute: []kmip.Attribute{
								{AttributeName: kmip.AttributeNameObjectType, AttributeValue: ot},
								{AttributeName: kmip.AttributeNameCryptographicAlgorithm, AttributeValue: alg},
								{AttributeName: kmip.AttributeNameLink, AttributeValue: link},
								{AttributeName: kmip.AttributeNameCryptographicUsageMask, AttributeValue: mask},
							}}
						case *payloads.GetRequestPayload:
							item.ResponsePayload = &payloads.GetResponsePayload{ObjectType: kmip.ObjectTypePublicKey, UniqueIdentifier: "pub", Object: pubObj(der, alg)}
						case *payloads.SignRequestPayload:
							item.ResponsePayload = &payloads.SignResponsePayload{UniqueIdentifier: "priv", SignatureData: make([]byte, siglen)}
						default:
							item.ResultStatus = kmip.ResultStatusOperationFailed
						}
						resp.BatchItem = append(resp.BatchItem, item)
					}
					return resp, nil
				}}
				func() {
					defer func() {
						if p := recover(); p != nil {
							t.Fatalf("GOCV-REPRODUCED: {{.Obligation}}: signer panicked on well-formed server responses (%s): %v", desc, p)
						}
					}()
					signer, err := c.Signer(context.Background(), "priv", "")
					if err != nil {
						return
					}
					digest := make([]byte, 32)
					_, _ = signer.Sign(rand.Reader, digest, crypto.SHA256)
				}()
			}
		}
	}
}
`}
	replayers["(*kmipclient.cryptoSigner).Sign"] = replayers["scenario:C12-signer"]
	replayers["prefix:(kmipclient.Executor["] = replayers["scenario:C12"]
	replayers["(*kmipclient.Client).Request"] = replayers["scenario:C12"]
	replayers["(*kmipclient.Client).BatchOpt"] = replayers["scenario:C12"]
	// key accessors (C14): every decodable shape with optional parts missing
	replayers["scenario:C14"] = &Replayer{PkgDir: ".", Oracle: "SymmetricKey, SecretData, PublicKey, PrivateKey with every key format type x {no key value, wrapped only, plain without material, plain with each single material kind present, transparent RSA private key with every subset of its 7 optional parts, EC scalars / points and RSA numbers that are zero, negative, equal to or far above the valid range on every curve}: every accessor returns normally (value or error), never panics; freshly generated ECDSA keys on the four curves, in both transparent layouts, are extracted equal to the original",
		Template: `package kmip

import (
	"crypto/ecdsa"
	"crypto/elliptic"
	"crypto/rand"
	"fmt"
	"math/big"
	"testing"
)

func TestGocvReplay(t *testing.T) {
	formats := []KeyFormatType{KeyFormatTypeRaw, KeyFormatTypeOpaque, KeyFormatTypePKCS_1, KeyFormatTypePKCS_8, KeyFormatTypeX_509, KeyFormatTypeECPrivateKey,
		KeyFormatTypeTransparentSymmetricKey, KeyFormatTypeTransparentRSAPrivateKey, KeyFormatTypeTransparentRSAPublicKey,
		KeyFormatTypeTransparentECDSAPrivateKey, KeyFormatTypeTransparentECDSAPublicKey, KeyFormatTypeTransparentECPrivateKey, KeyFormatTypeTransparentECPublicKey, 0, 999}
	raw := []byte{1, 2, 3}
	mats := map[string]KeyMaterial{
		"none":    {},
		"bytes":   {Bytes: &raw},
		"sym":     {TransparentSymmetricKey: &TransparentSymmetricKey{Key: raw}},
		"rsapriv": {TransparentRSAPrivateKey: &TransparentRSAPrivateKey{}},
		"rsapub":  {TransparentRSAPublicKey: &TransparentRSAPublicKey{}},
		"ecdsapriv": {TransparentECDSAPrivateKey: &TransparentECDSAPrivateKey{}},
		"ecdsapub":  {TransparentECDSAPublicKey: &TransparentECDSAPublicKey{}},
		"ecpriv":  {TransparentECPrivateKey: &TransparentECPrivateKey{RecommendedCurve: RecommendedCurveP_256}},
		"ecpub":   {TransparentECPublicKey: &TransparentECPublicKey{RecommendedCurve: RecommendedCurveP_256, QString: raw}},
	}
	// every subset of the optional parts of a transparent RSA private key
	for mask := 1; mask < 128; mask++ {
		k := &TransparentRSAPrivateKey{Modulus: *big.NewInt(3233)}
		for b, f := range []**big.Int{&k.PrivateExponent, &k.PublicExponent, &k.P, &k.Q, &k.PrimeExponentP, &k.PrimeExponentQ, &k.CRTCoefficient} {
			if mask&(1<<b) != 0 {
				*f = big.NewInt([]int64{413, 17, 61, 53, 53, 49, 38}[b])
			}
		}
		mats[fmt.Sprintf("rsapriv-parts-%07b", mask)] = KeyMaterial{TransparentRSAPrivateKey: k}
	}
	// decodable values outside the mathematical range of the key type: scalars that are zero, negative, equal to
	// or far above the group order; moduli and exponents that are zero, negative or huge
	huge := new(big.Int).Lsh(big.NewInt(1), 700)
	for ci, curve := range []RecommendedCurve{RecommendedCurveP_224, RecommendedCurveP_256, RecommendedCurveP_384, RecommendedCurveP_521, 0} {
		for di, d := range []*big.Int{big.NewInt(0), big.NewInt(-5), big.NewInt(1), new(big.Int).Lsh(big.NewInt(1), 300), huge, new(big.Int).Neg(huge)} {
			mats[fmt.Sprintf("ecpriv-c%d-d%d", ci, di)] = KeyMaterial{TransparentECPrivateKey: &TransparentECPrivateKey{RecommendedCurve: curve, D: *d}}
			mats[fmt.Sprintf("ecdsapriv-c%d-d%d", ci, di)] = KeyMaterial{TransparentECDSAPrivateKey: &TransparentECDSAPrivateKey{RecommendedCurve: curve, D: *d}}
		}
		for qi, q := range [][]byte{nil, {}, {4}, {4, 1, 2}, make([]byte, 300), append([]byte{2}, make([]byte, 32)...)} {
			mats[fmt.Sprintf("ecpub-c%d-q%d", ci, qi)] = KeyMaterial{TransparentECPublicKey: &TransparentECPublicKey{RecommendedCurve: curve, QString: q}}
			mats[fmt.Sprintf("ecdsapub-c%d-q%d", ci, qi)] = KeyMaterial{TransparentECDSAPublicKey: &TransparentECDSAPublicKey{RecommendedCurve: curve, QString: q}}
		}
	}
	for vi, v := range []*big.Int{big.NewInt(0), big.NewInt(-7), big.NewInt(1), huge, new(big.Int).Neg(huge)} {
		mats[fmt.Sprintf("rsapriv-all-%d", vi)] = KeyMaterial{TransparentRSAPrivateKey: &TransparentRSAPrivateKey{Modulus: *v, PrivateExponent: v, PublicExponent: big.NewInt(3), P: v, Q: v, PrimeExponentP: v, PrimeExponentQ: v, CRTCoefficient: v}}
		mats[fmt.Sprintf("rsapriv-mod-%d", vi)] = KeyMaterial{TransparentRSAPrivateKey: &TransparentRSAPrivateKey{Modulus: *v, PrivateExponent: big.NewInt(413), PublicExponent: big.NewInt(17), P: big.NewInt(61), Q: big.NewInt(53)}}
		mats[fmt.Sprintf("rsapriv-exp-%d", vi)] = KeyMaterial{TransparentRSAPrivateKey: &TransparentRSAPrivateKey{Modulus: *big.NewInt(3233), PrivateExponent: v, PublicExponent: v, P: big.NewInt(61), Q: big.NewInt(53)}}
		mats[fmt.Sprintf("rsapub-%d", vi)] = KeyMaterial{TransparentRSAPublicKey: &TransparentRSAPublicKey{Modulus: *v, PublicExponent: *v}}
	}
	for _, f := range formats {
		var kvs []*KeyValue
		names := []string{"nil-keyvalue", "wrapped-only", "empty"}
		kvs = append(kvs, nil, &KeyValue{Wrapped: &raw}, &KeyValue{})
		for n, m := range mats {
			names = append(names, "plain-"+n)
			kvs = append(kvs, &KeyValue{Plain: &PlainKeyValue{KeyMaterial: m}})
		}
		for i, kv := range kvs {
			kb := KeyBlock{KeyFormatType: f, KeyValue: kv}
			try := func(what string, fn func()) {
				defer func() {
					if p := recover(); p != nil {
						t.Fatalf("GOCV-REPRODUCED: {{.Obligation}}: %s panics on key format %d with %s: %v", what, f, names[i], p)
					}
				}()
				fn()
			}
			try("KeyBlock.GetMaterial", func() { kb.GetMaterial() })
			try("KeyBlock.GetBytes", func() { kb.GetBytes() })
			try("KeyBlock.GetAttributes", func() { kb.GetAttributes() })
			try("SymmetricKey.KeyMaterial", func() { (&SymmetricKey{KeyBlock: kb}).KeyMaterial() })
			try("SecretData.Data", func() { (&SecretData{KeyBlock: kb}).Data() })
			pub := &PublicKey{KeyBlock: kb}
			try("PublicKey.RSA", func() { pub.RSA() })
			try("PublicKey.ECDSA", func() { pub.ECDSA() })
			try("PublicKey.CryptoPublicKey", func() { pub.CryptoPublicKey() })
			try("PublicKey.PkixPem", func() { pub.PkixPem() })
			priv := &PrivateKey{KeyBlock: kb}
			try("PrivateKey.RSA", func() { priv.RSA() })
			try("PrivateKey.ECDSA", func() { priv.ECDSA() })
			try("PrivateKey.CryptoPrivateKey", func() { priv.CryptoPrivateKey() })
			try("PrivateKey.Pkcs8Pem", func() { priv.Pkcs8Pem() })
		}
	}
	// real keys: what the accessors extract is the key that was put in (every curve, both transparent layouts)
	for _, cv := range []struct {
		rc    RecommendedCurve
		curve elliptic.Curve
	}{ {RecommendedCurveP_224, elliptic.P224()}, {RecommendedCurveP_256, elliptic.P256()}, {RecommendedCurveP_384, elliptic.P384()}, {RecommendedCurveP_521, elliptic.P521()} } {
		key, err := ecdsa.GenerateKey(cv.curve, rand.Reader)
		if err != nil {
			t.Fatal(err)
		}
		//nolint:staticcheck // the uncompressed point encoding is what KMIP carries
		q := elliptic.Marshal(cv.curve, key.X, key.Y)
		for _, f := range []KeyFormatType{KeyFormatTypeTransparentECPublicKey, KeyFormatTypeTransparentECDSAPublicKey} {
			mat := KeyMaterial{TransparentECPublicKey: &TransparentECPublicKey{RecommendedCurve: cv.rc, QString: q}}
			if f == KeyFormatTypeTransparentECDSAPublicKey {
				mat = KeyMaterial{TransparentECDSAPublicKey: &TransparentECDSAPublicKey{RecommendedCurve: cv.rc, QString: q}}
			}
			pub := &PublicKey{KeyBlock: KeyBlock{KeyFormatType: f, KeyValue: &KeyValue{Plain: &PlainKeyValue{KeyMaterial: mat}}}}
			got, err := pub.ECDSA()
			if err != nil || !got.Equal(&key.PublicKey) {
				t.Fatalf("GOCV-REPRODUCED: {{.Obligation}}: PublicKey.ECDSA on a transparent public key (format %d) of curve %s: err=%v, equal=%v", f, cv.curve.Params().Name, err, err == nil && got.Equal(&key.PublicKey))
			}
		}
		for _, f := range []KeyFormatType{KeyFormatTypeTransparentECPrivateKey, KeyFormatTypeTransparentECDSAPrivateKey} {
			mat := KeyMaterial{TransparentECPrivateKey: &TransparentECPrivateKey{RecommendedCurve: cv.rc, D: *key.D}}
			if f == KeyFormatTypeTransparentECDSAPrivateKey {
				mat = KeyMaterial{TransparentECDSAPrivateKey: &TransparentECDSAPrivateKey{RecommendedCurve: cv.rc, D: *key.D}}
			}
			priv := &PrivateKey{KeyBlock: KeyBlock{KeyFormatType: f, KeyValue: &KeyValue{Plain: &PlainKeyValue{KeyMaterial: mat}}}}
			got, err := priv.ECDSA()
			if err != nil || !got.Equal(key) {
				t.Fatalf("GOCV-REPRODUCED: {{.Obligation}}: PrivateKey.ECDSA on a transparent private key (format %d) of curve %s: err=%v, equal=%v", f, cv.curve.Params().Name, err, err == nil && got.Equal(key))
			}
		}
	}

}
`}
	for _, fn := range []string{"(*kmip.KeyBlock).GetMaterial", "(*kmip.KeyBlock).GetBytes", "(*kmip.KeyBlock).GetAttributes", "(*kmip.SymmetricKey).KeyMaterial", "(*kmip.SecretData).Data",
		"(*kmip.PublicKey).RSA", "(*kmip.PublicKey).ECDSA", "(*kmip.PublicKey).CryptoPublicKey", "(*kmip.PublicKey).PkixPem",
		"(*kmip.PrivateKey).RSA", "(*kmip.PrivateKey).ECDSA", "(*kmip.PrivateKey).CryptoPrivateKey", "(*kmip.PrivateKey).Pkcs8Pem"} {
		replayers[fn] = replayers["scenario:C14"]
	}
	// hand-written codecs (C01 mirror lemmas): round trips of values with every optional part populated,
	// through the real binary encoder and decoder
	mirrorHead := `package kmip_test

import (
	"bytes"
	"fmt"
	"testing"
	"time"

	"github.com/ovh/kmip-go"
	"github.com/ovh/kmip-go/payloads"
	"github.com/ovh/kmip-go/ttlv"
)

var _ = time.Now
var _ = fmt.Sprint
var _ = payloads.GetRequestPayload{}

func gocvRoundTrip[T any](t *testing.T, what string, in *T) {
	t.Helper()
	defer func() {
		if p := recover(); p != nil {
			t.Fatalf("GOCV-REPRODUCED: {{.Obligation}}: %s: panic: %v", what, p)
		}
	}()
	raw := ttlv.MarshalTTLV(in)
	out := new(T)
	if err := ttlv.UnmarshalTTLV(raw, out); err != nil {
		t.Fatalf("GOCV-REPRODUCED: {{.Obligation}}: %s: the library cannot decode what it encoded: %v", what, err)
	}
	// "equal in content" is checked through the encoding (nil and empty slices are the same content): the
	// decoded value must re-encode to the very bytes it was decoded from, so no element was dropped or altered
	if raw2 := ttlv.MarshalTTLV(out); !bytes.Equal(raw, raw2) {
		t.Fatalf("GOCV-REPRODUCED: {{.Obligation}}: %s: re-encoding the decoded value gives %d bytes instead of %d", what, len(raw2), len(raw))
	}
}

func gocvExt() *kmip.MessageExtension {
	return &kmip.MessageExtension{VendorIdentification: "acme", CriticalityIndicator: false, VendorExtension: ttlv.Struct{}}
}

func gocvKey() *kmip.SymmetricKey {
	raw := []byte{1, 2, 3, 4, 5, 6, 7, 8, 9, 10, 11, 12, 13, 14, 15, 16}
	return &kmip.SymmetricKey{KeyBlock: kmip.KeyBlock{KeyFormatType: kmip.KeyFormatTypeRaw, KeyValue: &kmip.KeyValue{Plain: &kmip.PlainKeyValue{KeyMaterial: kmip.KeyMaterial{Bytes: &raw}}},
		CryptographicAlgorithm: kmip.CryptographicAlgorithmAES, CryptographicLength: 128}}
}

func gocvAttrs() []kmip.Attribute {
	return []kmip.Attribute{ {AttributeName: kmip.AttributeNameObjectType, AttributeValue: kmip.ObjectTypeSymmetricKey},
		{AttributeName: kmip.AttributeNameCryptographicLength, AttributeValue: int32(128)}}
}
`
	replayers["scenario:C01-response-item"] = &Replayer{PkgDir: ".", Oracle: "response messages whose batch item carries every optional part (operation, ID, status success / failed / pending, reason, message, asynchronous correlation value, payload also on a failed or pending item, message extension), in every combination, round-trip through MarshalTTLV/UnmarshalTTLV to an equal value and to identical bytes",
		Template: mirrorHead + `
func TestGocvReplay(t *testing.T) {
	for mask := 0; mask < 256; mask++ {
		bi := kmip.ResponseBatchItem{ResultStatus: kmip.ResultStatusSuccess}
		if mask&1 != 0 {
			bi.Operation = kmip.OperationActivate
			bi.ResponsePayload = &payloads.ActivateResponsePayload{UniqueIdentifier: "id-1"}
		}
		if mask&2 != 0 {
			bi.UniqueBatchItemID = []byte{9, 9}
		}
		if mask&4 != 0 {
			// a failed, pending or undone item may or may not carry a payload
			bi.ResultStatus = kmip.ResultStatusOperationFailed
			if mask&128 != 0 {
				bi.ResultStatus = kmip.ResultStatusOperationPending
			}
			bi.ResultReason = kmip.ResultReasonGeneralFailure
			if mask&64 == 0 {
				bi.ResponsePayload = nil
			}
		}
		if mask&8 != 0 {
			bi.ResultMessage = "text"
		}
		if mask&16 != 0 {
			bi.AsynchronousCorrelationValue = []byte{7}
		}
		if mask&32 != 0 {
			bi.MessageExtension = gocvExt()
		}
		msg := kmip.ResponseMessage{Header: kmip.ResponseHeader{ProtocolVersion: kmip.V1_4, BatchCount: 1}, BatchItem: []kmip.ResponseBatchItem{bi}}
		gocvRoundTrip(t, "response batch item", &msg)
	}
}
`}
	replayers["scenario:C01-attribute"] = &Replayer{PkgDir: ".", Oracle: "Get Attributes responses and Add Attribute requests whose attributes carry no index, index 0, 1 and 7, with values of every kind (enumeration, integer, mask, text, date-time, structure, custom x- attribute as opaque TTLV), round-trip through MarshalTTLV/UnmarshalTTLV to identical bytes with the index and the value type preserved",
		Template: mirrorHead + `
func TestGocvReplay(t *testing.T) {
	idx := func(i int32) *int32 { return &i }
	ts := time.Unix(1577934245, 0)
	values := []kmip.Attribute{
		{AttributeName: kmip.AttributeNameCryptographicAlgorithm, AttributeValue: kmip.CryptographicAlgorithmAES},
		{AttributeName: kmip.AttributeNameCryptographicLength, AttributeValue: int32(256)},
		{AttributeName: kmip.AttributeNameCryptographicUsageMask, AttributeValue: kmip.CryptographicUsageSign | kmip.CryptographicUsageVerify},
		{AttributeName: kmip.AttributeNameName, AttributeValue: kmip.Name{NameValue: "n", NameType: kmip.NameTypeUninterpretedTextString}},
		{AttributeName: kmip.AttributeNameActivationDate, AttributeValue: ts},
		{AttributeName: kmip.AttributeNameOperationPolicyName, AttributeValue: "default"},
		{AttributeName: "x-custom", AttributeValue: ttlv.Value{Tag: kmip.TagAttributeValue, Value: int64(7)}},
	}
	for vi, base := range values {
		for _, ix := range []*int32{nil, idx(0), idx(1), idx(7)} {
			a := base
			a.AttributeIndex = ix
			b := values[(vi+1)%len(values)]
			b.AttributeIndex = idx(0)
			resp := kmip.ResponseMessage{Header: kmip.ResponseHeader{ProtocolVersion: kmip.V1_4, BatchCount: 1}, BatchItem: []kmip.ResponseBatchItem{ {Operation: kmip.OperationGetAttributes,
				ResponsePayload: &payloads.GetAttributesResponsePayload{UniqueIdentifier: "id", Attribute: []kmip.Attribute{a, b}}} }}
			gocvRoundTrip(t, "Get Attributes response", &resp)
			var back kmip.ResponseMessage
			if err := ttlv.UnmarshalTTLV(ttlv.MarshalTTLV(&resp), &back); err == nil {
				got := back.BatchItem[0].ResponsePayload.(*payloads.GetAttributesResponsePayload).Attribute
				if len(got) != 2 || (got[0].AttributeIndex == nil) != (ix == nil) || (ix != nil && *got[0].AttributeIndex != *ix) || got[1].AttributeIndex == nil || *got[1].AttributeIndex != 0 {
					t.Fatalf("GOCV-REPRODUCED: {{.Obligation}}: attribute index not preserved (value %d, index %v): %+v", vi, ix, got)
				}
				if got[0].AttributeName != a.AttributeName || fmt.Sprintf("%T", got[0].AttributeValue) != fmt.Sprintf("%T", a.AttributeValue) {
					t.Fatalf("GOCV-REPRODUCED: {{.Obligation}}: attribute %s decoded as %T instead of %T", a.AttributeName, got[0].AttributeValue, a.AttributeValue)
				}
			}
			req := kmip.RequestMessage{Header: kmip.RequestHeader{ProtocolVersion: kmip.V1_4, BatchCount: 1}, BatchItem: []kmip.RequestBatchItem{ {Operation: kmip.OperationAddAttribute,
				RequestPayload: &payloads.AddAttributeRequestPayload{UniqueIdentifier: "id", Attribute: a}} }}
			gocvRoundTrip(t, "Add Attribute request", &req)
		}
	}
}
`}
	replayers["scenario:C01-request-item"] = &Replayer{PkgDir: ".", Oracle: "request messages whose batch item carries every optional part round-trip to an equal value and identical bytes",
		Template: mirrorHead + `
func TestGocvReplay(t *testing.T) {
	for mask := 0; mask < 4; mask++ {
		bi := kmip.RequestBatchItem{Operation: kmip.OperationActivate, RequestPayload: &payloads.ActivateRequestPayload{UniqueIdentifier: "id-1"}}
		if mask&1 != 0 {
			bi.UniqueBatchItemID = []byte{9, 9}
		}
		if mask&2 != 0 {
			bi.MessageExtension = gocvExt()
		}
		msg := kmip.RequestMessage{Header: kmip.RequestHeader{ProtocolVersion: kmip.V1_4, BatchCount: 1}, BatchItem: []kmip.RequestBatchItem{bi}}
		gocvRoundTrip(t, "request batch item", &msg)
	}
}
`}
	replayers["scenario:C01-import"] = &Replayer{PkgDir: ".", Oracle: "Import request payloads with every combination of ReplaceExisting and KeyWrapType round-trip to an equal value and identical bytes",
		Template: mirrorHead + `
func TestGocvReplay(t *testing.T) {
	for mask := 0; mask < 4; mask++ {
		pl := payloads.ImportRequestPayload{UniqueIdentifier: "id-1", Attribute: gocvAttrs(), Object: gocvKey()}
		if mask&1 != 0 {
			pl.ReplaceExisting = true
		}
		if mask&2 != 0 {
			pl.KeyWrapType = kmip.NotWrapped
		}
		msg := kmip.RequestMessage{Header: kmip.RequestHeader{ProtocolVersion: kmip.V1_4, BatchCount: 1},
			BatchItem: []kmip.RequestBatchItem{ {Operation: kmip.OperationImport, RequestPayload: &pl}}}
		gocvRoundTrip(t, "import request", &msg)
	}
}
`}
	replayers["scenario:C01-payloads"] = &Replayer{PkgDir: ".", Oracle: "Get / Export responses and Register requests with an object and attributes round-trip to an equal value and identical bytes",
		Template: mirrorHead + `
func TestGocvReplay(t *testing.T) {
	resp := func(op kmip.Operation, pl kmip.OperationPayload) *kmip.ResponseMessage {
		return &kmip.ResponseMessage{Header: kmip.ResponseHeader{ProtocolVersion: kmip.V1_4, BatchCount: 1},
			BatchItem: []kmip.ResponseBatchItem{ {Operation: op, ResultStatus: kmip.ResultStatusSuccess, ResponsePayload: pl}}}
	}
	gocvRoundTrip(t, "get response", resp(kmip.OperationGet, &payloads.GetResponsePayload{ObjectType: kmip.ObjectTypeSymmetricKey, UniqueIdentifier: "id", Object: gocvKey()}))
	gocvRoundTrip(t, "export response", resp(kmip.OperationExport, &payloads.ExportResponsePayload{ObjectType: kmip.ObjectTypeSymmetricKey, UniqueIdentifier: "id", Attribute: gocvAttrs(), Object: gocvKey()}))
	gocvRoundTrip(t, "export response without attributes", resp(kmip.OperationExport, &payloads.ExportResponsePayload{ObjectType: kmip.ObjectTypeSymmetricKey, UniqueIdentifier: "id", Object: gocvKey()}))
	req := &kmip.RequestMessage{Header: kmip.RequestHeader{ProtocolVersion: kmip.V1_4, BatchCount: 1},
		BatchItem: []kmip.RequestBatchItem{ {Operation: kmip.OperationRegister, RequestPayload: &payloads.RegisterRequestPayload{ObjectType: kmip.ObjectTypeSymmetricKey,
			TemplateAttribute: kmip.TemplateAttribute{Attribute: gocvAttrs()}, Object: gocvKey()}}}}
	gocvRoundTrip(t, "register request", req)
}
`}
	replayers["scenario:C01-keyblock"] = &Replayer{PkgDir: ".", Oracle: "Get responses carrying a symmetric key whose key block has every shape (no key value, wrapped, raw bytes, transparent symmetric key; with and without attributes, algorithm, length, wrapping data) round-trip to identical bytes",
		Template: mirrorHead + `
func TestGocvReplay(t *testing.T) {
	raw := []byte{1, 2, 3, 4, 5, 6, 7, 8}
	shapes := map[string]*kmip.KeyValue{
		"no-value":  nil,
		"wrapped":   { Wrapped: &raw},
		"raw":       { Plain: &kmip.PlainKeyValue{KeyMaterial: kmip.KeyMaterial{Bytes: &raw}}},
		"raw+attrs": { Plain: &kmip.PlainKeyValue{KeyMaterial: kmip.KeyMaterial{Bytes: &raw}, Attribute: gocvAttrs()}},
		"tsym":      { Plain: &kmip.PlainKeyValue{KeyMaterial: kmip.KeyMaterial{TransparentSymmetricKey: &kmip.TransparentSymmetricKey{Key: raw}}}},
	}
	for name, kv := range shapes {
		for mask := 0; mask < 8; mask++ {
			kb := kmip.KeyBlock{KeyFormatType: kmip.KeyFormatTypeRaw, KeyValue: kv}
			if name == "tsym" {
				kb.KeyFormatType = kmip.KeyFormatTypeTransparentSymmetricKey
			}
			if mask&1 != 0 {
				kb.CryptographicAlgorithm = kmip.CryptographicAlgorithmAES
				kb.CryptographicLength = 64
			}
			if mask&2 != 0 {
				kb.KeyCompressionType = kmip.KeyCompressionTypeECPublicKeyTypeUncompressed
			}
			if mask&4 != 0 {
				kb.KeyWrappingData = &kmip.KeyWrappingData{WrappingMethod: kmip.WrappingMethodEncrypt, IVCounterNonce: []byte{1}}
			}
			msg := kmip.ResponseMessage{Header: kmip.ResponseHeader{ProtocolVersion: kmip.V1_4, BatchCount: 1},
				BatchItem: []kmip.ResponseBatchItem{ {Operation: kmip.OperationGet, ResultStatus: kmip.ResultStatusSuccess,
					ResponsePayload: &payloads.GetResponsePayload{ObjectType: kmip.ObjectTypeSymmetricKey, UniqueIdentifier: "id", Object: &kmip.SymmetricKey{KeyBlock: kb}}}}}
			gocvRoundTrip(t, "key block "+name, &msg)
		}
	}
}
`}
	replayers["scenario:C01-credential"] = &Replayer{PkgDir: ".", Oracle: "request headers carrying each kind of credential round-trip to identical bytes",
		Template: mirrorHead + `
func TestGocvReplay(t *testing.T) {
	creds := []kmip.Credential{
		{CredentialType: kmip.CredentialTypeUsernameAndPassword, CredentialValue: kmip.CredentialValue{UserPassword: &kmip.CredentialValueUserPassword{Username: "u", Password: "p"}}},
		{CredentialType: kmip.CredentialTypeDevice, CredentialValue: kmip.CredentialValue{Device: &kmip.CredentialValueDevice{DeviceSerialNumber: "s", NetworkIdentifier: "n"}}},
		{CredentialType: kmip.CredentialTypeAttestation, CredentialValue: kmip.CredentialValue{Attestation: &kmip.CredentialValueAttestation{Nonce: kmip.Nonce{NonceID: []byte{1}, NonceValue: []byte{2}}, AttestationType: kmip.AttestationTypeTPMQuote, AttestationMeasurement: []byte{3}}}},
	}
	for _, c := range creds {
		msg := kmip.RequestMessage{Header: kmip.RequestHeader{ProtocolVersion: kmip.V1_4, Authentication: &kmip.Authentication{Credential: c}, BatchCount: 1},
			BatchItem: []kmip.RequestBatchItem{ {Operation: kmip.OperationActivate, RequestPayload: &payloads.ActivateRequestPayload{UniqueIdentifier: "id-1"}}}}
		gocvRoundTrip(t, "credential", &msg)
	}
}
`}
	for _, fn := range []string{"NoValue", "Wrapped", "Raw", "PKCS8", "TransparentSymmetric", "TransparentRSAPrivate", "TransparentRSAPublic", "TransparentECDSAPrivate", "TransparentECDSAPublic", "TransparentECPrivate", "TransparentECPublic"} {
		replayers["kmip.lemmaMirrorKeyBlock"+fn] = replayers["scenario:C01-keyblock"]
	}
	for _, fn := range []string{"Password", "Device", "Attestation"} {
		replayers["kmip.lemmaMirrorCredential"+fn] = replayers["scenario:C01-credential"]
	}
	replayers["kmip.lemmaMirrorResponseBatchItem"] = replayers["scenario:C01-response-item"]
	replayers["kmip.lemmaMirrorRequestBatchItem"] = replayers["scenario:C01-request-item"]
	replayers["payloads.lemmaMirrorImportRequest"] = replayers["scenario:C01-import"]
	for _, fn := range []string{"payloads.lemmaMirrorGetResponse", "payloads.lemmaMirrorExportResponse", "payloads.lemmaMirrorRegisterRequest"} {
		replayers[fn] = replayers["scenario:C01-payloads"]
	}
	// call-history independence, single goroutine (C20): reused cleared encoders, lookups of unknown names
	replayers["scenario:C20"] = &Replayer{PkgDir: ".", Oracle: "every permutation of four values (messages of protocol versions 1.0 and 1.4 and bare payloads with version-gated fields) encoded on one reused, cleared encoder of each encoding gives the bytes a fresh encoder gives; failed name lookups and decodes in between change nothing; decoding after any history gives a value that re-encodes to the same bytes",
		Template: `package kmip_test

import (
	"bytes"
	"testing"

	"github.com/ovh/kmip-go"
	"github.com/ovh/kmip-go/payloads"
	"github.com/ovh/kmip-go/ttlv"
)

func gocvPerms(n int) [][]int {
	if n == 1 {
		return [][]int{ {0}}
	}
	var out [][]int
	for _, p := range gocvPerms(n - 1) {
		for i := 0; i <= len(p); i++ {
			q := append(append(append([]int{}, p[:i]...), n-1), p[i:]...)
			out = append(out, q)
		}
	}
	return out
}

func TestGocvReplay(t *testing.T) {
	locate := &payloads.LocateRequestPayload{MaximumItems: 3, OffsetItems: 7, ObjectGroupMember: kmip.ObjectGroupMemberFresh}
	vals := []any{
		&kmip.RequestMessage{Header: kmip.RequestHeader{ProtocolVersion: kmip.V1_0, ClientCorrelationValue: "c", BatchCount: 1},
			BatchItem: []kmip.RequestBatchItem{ {Operation: kmip.OperationLocate, RequestPayload: &payloads.LocateRequestPayload{MaximumItems: 3, OffsetItems: 7, ObjectGroupMember: kmip.ObjectGroupMemberFresh}}}},
		&kmip.RequestMessage{Header: kmip.RequestHeader{ProtocolVersion: kmip.V1_4, ClientCorrelationValue: "c", BatchCount: 1},
			BatchItem: []kmip.RequestBatchItem{ {Operation: kmip.OperationLocate, RequestPayload: &payloads.LocateRequestPayload{MaximumItems: 3, OffsetItems: 7, ObjectGroupMember: kmip.ObjectGroupMemberFresh}}}},
		locate,
		&kmip.CryptographicParameters{BlockCipherMode: kmip.BlockCipherModeGCM, TagLength: 16, SaltLength: new(int32)},
	}
	type codec struct {
		name  string
		fresh func() ttlv.Encoder
	}
	for _, c := range []codec{ {"ttlv", ttlv.NewTTLVEncoder}, {"xml", ttlv.NewXMLEncoder}, {"json", ttlv.NewJSONEncoder}} {
		ref := make([][]byte, len(vals))
		for i, v := range vals {
			e := c.fresh()
			e.TagAny(kmip.TagRequestPayload, v)
			ref[i] = append([]byte{}, e.Bytes()...)
		}
		for _, perm := range gocvPerms(len(vals)) {
			e := c.fresh()
			for step, i := range perm {
				e.Clear()
				// unrelated activity between two encodings
				ttlv.EnumByName(kmip.TagOperation, "NoSuchOperation")
				ttlv.BitmaskByStr(kmip.TagCryptographicUsageMask, "NoSuchFlag")
				var junk kmip.RequestMessage
				_ = ttlv.UnmarshalTTLV([]byte{0x42, 0, 0x78, 1, 0, 0, 0, 0}, &junk)
				e.TagAny(kmip.TagRequestPayload, vals[i])
				if got := e.Bytes(); !bytes.Equal(got, ref[i]) {
					t.Fatalf("GOCV-REPRODUCED: {{.Obligation}}: %s encoder reused after Clear, order %v step %d: value %d encodes to %d bytes, a fresh encoder gives %d bytes", c.name, perm, step, i, len(got), len(ref[i]))
				}
			}
		}
	}
	// name lookups after unknown-name lookups
	for i := 0; i < 2; i++ {
		if _, err := ttlv.EnumByName(kmip.TagOperation, "NoSuchOperation"); err == nil {
			t.Fatalf("GOCV-REPRODUCED: {{.Obligation}}: an unknown enumeration name resolves after it was looked up before")
		}
		if v, err := ttlv.EnumByName(kmip.TagOperation, "Locate"); err != nil || v != uint32(kmip.OperationLocate) {
			t.Fatalf("GOCV-REPRODUCED: {{.Obligation}}: Locate resolves to %d, %v after failed lookups", v, err)
		}
	}
}
`}
	// version gating of every version-dependent field, on the real encoder (C05): generated from the pinned table
	{
		var pinned Registry
		if loadSpec("registry.json", &pinned) && len(pinned.Versions) > 0 {
			var rows []string
			for _, v := range pinned.Versions {
				rg := strings.TrimPrefix(v.Range, "v")
				mn := strings.SplitN(rg, "..", 2)[0]
				parts := strings.SplitN(mn, ".", 2)
				if len(parts) != 2 {
					continue
				}
				rows = append(rows, fmt.Sprintf("\t\t{new(%s), %q, %s, %s},", v.Struct, v.Field, parts[0], parts[1]))
			}
			replayers["scenario:C05-table"] = &Replayer{PkgDir: ".", Oracle: fmt.Sprintf("each of the %d version-dependent fields of the pinned table, populated alone in its structure and encoded by the real binary encoder at each of the protocol versions 1.0 to 1.4, is present exactly from the version that introduces it; request and response messages at each version through the real headers, alone and after a Discover Versions item listing other versions (5 lists): Offset Items / Located Items (1.3) and the correlation values (1.4) are on the wire exactly when the header version allows", len(rows)),
				Template: c05Head + strings.Join(rows, "\n") + c05Tail}
		}
	}
	// content the library does not model is preserved as opaque TTLV (C06); Attribute.TagDecodeTTLV works through
	// reflect.Value and is outside the verifier's reach: this bounded check stands in for it
	replayers["scenario:C06-opaque"] = &Replayer{PkgDir: ".", Oracle: "attributes with custom (x-, y-) and unknown names carrying a value of each of the ten TTLV types, and request / response messages with three unimplemented operation codes, decode and re-encode to the identical bytes; five unknown object types yield an error",
		Template: `package kmip_test

import (
	"bytes"
	"math/big"
	"testing"
	"time"

	"github.com/ovh/kmip-go"
	"github.com/ovh/kmip-go/payloads"
	"github.com/ovh/kmip-go/ttlv"
)

var _ = payloads.GetRequestPayload{}

func TestGocvReplay(t *testing.T) {
	enc := func(v ttlv.Value) []byte {
		e := ttlv.NewTTLVEncoder()
		v.EncodeTTLV(&e)
		return append([]byte{}, e.Bytes()...)
	}
	values := map[string]any{
		"integer": int32(-7), "long": int64(1) << 40, "big": big.NewInt(1 << 20), "enum": ttlv.Enum(3), "bool": true,
		"text": "hello", "bytes": []byte{1, 2, 3}, "date": time.Unix(1700000000, 0), "interval": 90 * time.Second,
		"struct": ttlv.Struct{ {Tag: kmip.TagNameValue, Value: "n"}, {Tag: kmip.TagNameType, Value: ttlv.Enum(1)}},
	}
	// attributes the library does not know (custom and unknown standard-looking names) keep their value as opaque TTLV
	for _, name := range []string{"x-custom", "y-vendor-attr", "Not A Standard Attribute"} {
		for kind, val := range values {
			raw := enc(ttlv.Value{Tag: kmip.TagAttribute, Value: ttlv.Struct{ {Tag: kmip.TagAttributeName, Value: name}, {Tag: kmip.TagAttributeValue, Value: val}}})
			var att kmip.Attribute
			if err := ttlv.UnmarshalTTLV(raw, &att); err != nil {
				t.Fatalf("GOCV-REPRODUCED: {{.Obligation}}: attribute %q with a %s value is not decodable: %v", name, kind, err)
			}
			if again := ttlv.MarshalTTLV(&att); !bytes.Equal(again, raw) {
				t.Fatalf("GOCV-REPRODUCED: {{.Obligation}}: attribute %q with a %s value is not preserved: re-encoding differs\n was %x\n now %x", name, kind, raw, again)
			}
		}
	}
	// operations the library does not implement keep their payload as opaque TTLV
	for _, op := range []uint32{0x0000002C, 0x00000040, 0x7FFFFFFF} {
		for _, dir := range []string{"request", "response"} {
			payloadTag, msgTag, hdrTag := kmip.TagRequestPayload, kmip.TagRequestMessage, kmip.TagRequestHeader
			if dir == "response" {
				payloadTag, msgTag, hdrTag = kmip.TagResponsePayload, kmip.TagResponseMessage, kmip.TagResponseHeader
			}
			hdr := ttlv.Struct{ {Tag: kmip.TagProtocolVersion, Value: ttlv.Struct{ {Tag: kmip.TagProtocolVersionMajor, Value: int32(1)}, {Tag: kmip.TagProtocolVersionMinor, Value: int32(4)}}}}
			item := ttlv.Struct{ {Tag: kmip.TagOperation, Value: ttlv.Enum(op)}}
			if dir == "response" {
				hdr = append(hdr, ttlv.Value{Tag: kmip.TagTimeStamp, Value: time.Unix(1700000000, 0)})
				item = append(item, ttlv.Value{Tag: kmip.TagResultStatus, Value: ttlv.Enum(0)})
			}
			hdr = append(hdr, ttlv.Value{Tag: kmip.TagBatchCount, Value: int32(1)})
			item = append(item, ttlv.Value{Tag: payloadTag, Value: ttlv.Struct{ {Tag: kmip.TagUniqueIdentifier, Value: "id"}, {Tag: kmip.TagData, Value: []byte{9, 9}}, {Tag: kmip.TagIVLength, Value: int32(5)}}})
			raw := enc(ttlv.Value{Tag: msgTag, Value: ttlv.Struct{ {Tag: hdrTag, Value: hdr}, {Tag: kmip.TagBatchItem, Value: item}}})
			var again []byte
			var err error
			if dir == "request" {
				var m kmip.RequestMessage
				if err = ttlv.UnmarshalTTLV(raw, &m); err == nil {
					again = ttlv.MarshalTTLV(&m)
				}
			} else {
				var m kmip.ResponseMessage
				if err = ttlv.UnmarshalTTLV(raw, &m); err == nil {
					again = ttlv.MarshalTTLV(&m)
				}
			}
			if err != nil {
				t.Fatalf("GOCV-REPRODUCED: {{.Obligation}}: %s with unknown operation 0x%X is not decodable: %v", dir, op, err)
			}
			if !bytes.Equal(again, raw) {
				t.Fatalf("GOCV-REPRODUCED: {{.Obligation}}: %s with unknown operation 0x%X is not preserved: re-encoding differs\n was %x\n now %x", dir, op, raw, again)
			}
		}
	}
	// an unknown object type is an error, never a value of some other type
	for _, ot := range []kmip.ObjectType{0, 10, 999, 0x80000001, 0xFFFFFFFF} {
		if obj, err := kmip.NewObjectForType(ot); err == nil {
			t.Fatalf("GOCV-REPRODUCED: {{.Obligation}}: NewObjectForType(0x%X) returns a %T instead of an error", uint32(ot), obj)
		}
	}
}
`}
	// text encodings (C18): accepted non-canonical XML / JSON forms re-encode to the canonical document
	replayers["scenario:C18-text"] = &Replayer{PkgDir: ".", Oracle: "a two-item request message (Create with enumeration, integer, mask and structure attributes; Register of a raw symmetric key) in its canonical JSON and XML form, rewritten with 34 non-canonical spellings the decoders accept (enumerations and masks by number or hex string or in another order, integers as hex strings, a date-time in another zone, a tag by number): each accepted document decodes to a message whose re-encoding is the canonical document, decodes again, re-encodes byte-identically, and has the binary form of the original; 16 values accepted in binary form (intervals up to 2^32-1 s, text strings with backslashes, quotes, control characters and non-ASCII runes, negative numbers, dates before 1970) are written in each of the three encodings, read back and written again byte-identically; 16 raw JSON / XML documents with out-of-range or oddly spelt values (negative and too large intervals, a hexadecimal date-time, a negative hexadecimal tag) are either rejected or, once accepted, can be written in every encoding, read back and written again byte-identically",
		Template: `package kmip_test

import (
	"bytes"
	"strings"
	"testing"
	"time"

	"github.com/ovh/kmip-go"
	"github.com/ovh/kmip-go/payloads"
	"github.com/ovh/kmip-go/ttlv"
)

func TestGocvReplay(t *testing.T) {
	ts := time.Unix(1577934245, 0)
	raw := []byte{1, 2, 3, 4, 5, 6, 7, 8}
	m := &kmip.RequestMessage{Header: kmip.RequestHeader{ProtocolVersion: kmip.V1_4, BatchCount: 2, TimeStamp: &ts, ClientCorrelationValue: "c", BatchErrorContinuationOption: kmip.BatchErrorContinuationOptionStop},
		BatchItem: []kmip.RequestBatchItem{
			{Operation: kmip.OperationCreate, UniqueBatchItemID: []byte{1}, RequestPayload: &payloads.CreateRequestPayload{ObjectType: kmip.ObjectTypeSymmetricKey,
				TemplateAttribute: kmip.TemplateAttribute{Attribute: []kmip.Attribute{
					{AttributeName: kmip.AttributeNameCryptographicAlgorithm, AttributeValue: kmip.CryptographicAlgorithmAES},
					{AttributeName: kmip.AttributeNameCryptographicLength, AttributeValue: int32(256)},
					{AttributeName: kmip.AttributeNameCryptographicUsageMask, AttributeValue: kmip.CryptographicUsageSign | kmip.CryptographicUsageVerify},
					{AttributeName: kmip.AttributeNameName, AttributeValue: kmip.Name{NameValue: "n", NameType: kmip.NameTypeUninterpretedTextString}},
				}}}},
			{Operation: kmip.OperationRegister, RequestPayload: &payloads.RegisterRequestPayload{ObjectType: kmip.ObjectTypeSymmetricKey,
				Object: &kmip.SymmetricKey{KeyBlock: kmip.KeyBlock{KeyFormatType: kmip.KeyFormatTypeRaw, KeyValue: &kmip.KeyValue{Plain: &kmip.PlainKeyValue{KeyMaterial: kmip.KeyMaterial{Bytes: &raw}}}, CryptographicAlgorithm: kmip.CryptographicAlgorithmAES, CryptographicLength: 64}}}},
		}}
	type codec struct {
		name string
		enc  func(any) []byte
		dec  func([]byte, any) error
	}
	rew := map[string][][2]string{
		"json": {
			{"\"value\": \"Stop\"", "\"value\": \"0x00000002\""}, {"\"value\": \"Stop\"", "\"value\": 2"},
			{"\"value\": \"Create\"", "\"value\": \"0x00000001\""}, {"\"value\": \"AES\"", "\"value\": \"0x00000003\""}, {"\"value\": \"AES\"", "\"value\": 3"},
			{"\"value\": 256", "\"value\": \"0x00000100\""}, {"\"value\": 2}", "\"value\": \"0x00000002\"}"},
			{"\"Sign|Verify\"", "3"}, {"\"Sign|Verify\"", "\"0x00000003\""}, {"\"Sign|Verify\"", "\"Verify|Sign\""}, {"\"Sign|Verify\"", "\"Sign|0x00000002\""}, {"\"Sign|Verify\"", "\"Sign | Verify\""},
			{"2020-01-02T03:04:05Z", "2020-01-02T05:04:05+02:00"}, {"\"tag\": \"BatchCount\"", "\"tag\": \"0x42000d\""}, {"0102030405060708", "0102030405060708"},
			{"\"value\": \"SymmetricKey\"", "\"value\": \"0x00000002\""}, {"\"value\": \"Raw\"", "\"value\": 1"}, {"\"value\": \"UninterpretedTextString\"", "\"value\": \"0x00000001\""},
		},
		"xml": {
			{"value=\"Stop\"", "value=\"0x00000002\""}, {"value=\"Stop\"", "value=\"2\""}, {"value=\"Create\"", "value=\"0x00000001\""}, {"value=\"AES\"", "value=\"0x00000003\""}, {"value=\"AES\"", "value=\"3\""},
			{"value=\"256\"", "value=\"0x00000100\""}, {"value=\"Sign Verify\"", "value=\"3\""}, {"value=\"Sign Verify\"", "value=\"0x00000003\""}, {"value=\"Sign Verify\"", "value=\"Verify Sign\""}, {"value=\"Sign Verify\"", "value=\"Sign 0x00000002\""}, {"value=\"Sign Verify\"", "value=\" Sign   Verify \""},
			{"2020-01-02T03:04:05Z", "2020-01-02T05:04:05+02:00"}, {"<BatchCount type=\"Integer\" value=\"2\"/>", "<TTLV tag=\"0x42000d\" type=\"Integer\" value=\"2\"/>"},
			{"value=\"SymmetricKey\"", "value=\"0x00000002\""}, {"value=\"Raw\"", "value=\"1\""}, {"value=\"0102030405060708\"", "value=\"0102030405060708\""},
		},
	}
	for _, c := range []codec{ {"json", ttlv.MarshalJSON, ttlv.UnmarshalJSON}, {"xml", ttlv.MarshalXML, ttlv.UnmarshalXML} } {
		canon := string(c.enc(m))
		for _, r := range rew[c.name] {
			if !strings.Contains(canon, r[0]) {
				t.Errorf("GOCV-REPRODUCED: {{.Obligation}}: %s: rewrite source %q not in the canonical document", c.name, r[0])
				continue
			}
			doc := strings.ReplaceAll(canon, r[0], r[1])
			var m1 kmip.RequestMessage
			if err := c.dec([]byte(doc), &m1); err != nil {
				t.Logf("%s: %q -> %q rejected: %v", c.name, r[0], r[1], err)
				continue
			}
			e1 := c.enc(&m1)
			if string(e1) != canon {
				t.Errorf("GOCV-REPRODUCED: {{.Obligation}}: %s: %q -> %q accepted, but the re-encoding is not the canonical document", c.name, r[0], r[1])
			}
			var m2 kmip.RequestMessage
			if err := c.dec(e1, &m2); err != nil {
				t.Errorf("GOCV-REPRODUCED: {{.Obligation}}: %s: %q -> %q: re-encoding rejected: %v", c.name, r[0], r[1], err)
				continue
			}
			if e2 := c.enc(&m2); !bytes.Equal(e1, e2) {
				t.Errorf("GOCV-REPRODUCED: {{.Obligation}}: %s: %q -> %q: second re-encoding differs", c.name, r[0], r[1])
			}
			if b1, b2 := ttlv.MarshalTTLV(&m1), ttlv.MarshalTTLV(m); !bytes.Equal(b1, b2) {
				t.Errorf("GOCV-REPRODUCED: {{.Obligation}}: %s: %q -> %q: binary form of the decoded message differs from the original", c.name, r[0], r[1])
			}
		}
	}
	gocvCrossFixedPoint(t)
	gocvRawDocuments(t)
}

func gocvCrossFixedPoint(t *testing.T) {
	type codec struct {
		name string
		enc  func(any) []byte
		dec  func([]byte, any) error
	}
	codecs := []codec{ {"ttlv", ttlv.MarshalTTLV, ttlv.UnmarshalTTLV}, {"xml", ttlv.MarshalXML, ttlv.UnmarshalXML}, {"json", ttlv.MarshalJSON, ttlv.UnmarshalJSON}}
	vals := []ttlv.Value{
		{Tag: kmip.TagLeaseTime, Value: 3000000000 * time.Second}, {Tag: kmip.TagLeaseTime, Value: time.Duration(1<<32-1) * time.Second}, {Tag: kmip.TagLeaseTime, Value: time.Duration(0)},
		{Tag: kmip.TagUniqueIdentifier, Value: "ACME\\kmip-admin"}, {Tag: kmip.TagUniqueIdentifier, Value: "a\\n"}, {Tag: kmip.TagUniqueIdentifier, Value: "quote\"and<&>'"}, {Tag: kmip.TagUniqueIdentifier, Value: "tab\tnl\ncr\r"},
		{Tag: kmip.TagUniqueIdentifier, Value: "bell\a"}, {Tag: kmip.TagUniqueIdentifier, Value: "del\x7f"}, {Tag: kmip.TagUniqueIdentifier, Value: "é€😀"},
		{Tag: kmip.TagBatchCount, Value: int32(-1)}, {Tag: kmip.TagUsageLimitsTotal, Value: int64(-1)}, {Tag: kmip.TagAsynchronousIndicator, Value: true},
		{Tag: kmip.TagKeyMaterial, Value: []byte{0, 255}}, {Tag: kmip.TagTimeStamp, Value: time.Unix(1577934245, 0)}, {Tag: kmip.TagTimeStamp, Value: time.Unix(-1, 0)},
	}
	for _, v := range vals {
		raw := ttlv.MarshalTTLV(v)
		var v1 ttlv.Value
		if err := ttlv.UnmarshalTTLV(raw, &v1); err != nil {
			t.Logf("binary form of %v rejected: %v", v.Value, err)
			continue
		}
		for _, c := range codecs {
			func() {
				defer func() {
					if p := recover(); p != nil {
						t.Fatalf("GOCV-REPRODUCED: {{.Obligation}}: %s: %T(%q): panic %v", c.name, v.Value, v.Value, p)
					}
				}()
				e1 := c.enc(v1)
				var v2 ttlv.Value
				if err := c.dec(e1, &v2); err != nil {
					t.Fatalf("GOCV-REPRODUCED: {{.Obligation}}: %s: %T(%q) accepted in binary form is written as %s which the %s decoder rejects: %v", c.name, v.Value, v.Value, e1, c.name, err)
					return
				}
				if e2 := c.enc(v2); !bytes.Equal(e1, e2) {
					t.Fatalf("GOCV-REPRODUCED: {{.Obligation}}: %s: %T(%q): second re-encoding differs: %s vs %s", c.name, v.Value, v.Value, e1, e2)
				}
			}()
		}
	}
}

func gocvRawDocuments(t *testing.T) {
	type codec struct {
		name string
		enc  func(any) []byte
		dec  func([]byte, any) error
	}
	codecs := map[string]codec{"ttlv": {"ttlv", ttlv.MarshalTTLV, ttlv.UnmarshalTTLV}, "xml": {"xml", ttlv.MarshalXML, ttlv.UnmarshalXML}, "json": {"json", ttlv.MarshalJSON, ttlv.UnmarshalJSON}}
	docs := map[string][]string{
		"json": {
			"{\"tag\":\"LeaseTime\",\"type\":\"Interval\",\"value\":-1}", "{\"tag\":\"LeaseTime\",\"type\":\"Interval\",\"value\":4294967296}", "{\"tag\":\"LeaseTime\",\"type\":\"Interval\",\"value\":9223372036854775807}",
			"{\"tag\":\"LeaseTime\",\"type\":\"Interval\",\"value\":4294967295}", "{\"tag\":\"LeaseTime\",\"type\":\"Interval\",\"value\":\"0x0000000A\"}",
			"{\"tag\":\"TimeStamp\",\"type\":\"DateTime\",\"value\":\"0x253402300800\"}", "{\"tag\":\"TimeStamp\",\"type\":\"DateTime\",\"value\":\"0x000000005e0d5a25\"}",
			"{\"tag\":\"0x-1\",\"type\":\"Integer\",\"value\":1}", "{\"tag\":\"0x42000d\",\"type\":\"Integer\",\"value\":1}", "{\"tag\":\"0x1000000\",\"type\":\"Integer\",\"value\":1}",
		},
		"xml": {
			"<TTLV tag=\"0x-1\" type=\"Integer\" value=\"1\"/>", "<TTLV tag=\"0x42000d\" type=\"Integer\" value=\"1\"/>", "<TTLV tag=\"0x1000000\" type=\"Integer\" value=\"1\"/>",
			"<LeaseTime type=\"Interval\" value=\"4294967295\"/>", "<LeaseTime type=\"Interval\" value=\"4294967296\"/>", "<LeaseTime type=\"Interval\" value=\"-1\"/>",
		},
	}
	for cn, list := range docs {
		for _, doc := range list {
			var v1 ttlv.Value
			if err := codecs[cn].dec([]byte(doc), &v1); err != nil {
				_ = err
				continue
			}
			for _, c := range codecs {
				func() {
					defer func() {
						if p := recover(); p != nil {
							t.Fatalf("GOCV-REPRODUCED: {{.Obligation}}: %s input %s is accepted but writing it in %s panics: %v", cn, doc, c.name, p)
						}
					}()
					e1 := c.enc(v1)
					var v2 ttlv.Value
					if err := c.dec(e1, &v2); err != nil {
						t.Fatalf("GOCV-REPRODUCED: {{.Obligation}}: %s input %s is accepted, written in %s as %s, and that is rejected: %v", cn, doc, c.name, e1, err)
						return
					}
					if e2 := c.enc(v2); !bytes.Equal(e1, e2) {
						t.Fatalf("GOCV-REPRODUCED: {{.Obligation}}: %s input %s: second re-encoding in %s differs: %s vs %s", cn, doc, c.name, e1, e2)
					}
				}()
			}
		}
	}
}
`}
	// Go integer kinds (C03): whatever kind the caller hands over, the number on the wire is the number handed over
	replayers["scenario:C03-anyvalues"] = &Replayer{PkgDir: "ttlv", Oracle: "the minimum, the maximum, 0, -1 and mid-range values of every Go integer kind (int8 ... int64, uint8 ... uint64, int, uint), booleans, strings and byte strings handed to Encoder.TagAny directly and as a structure field: the call is refused (panic) or the item written is a well-formed Integer / Long Integer (Boolean, Text String, Byte String) whose value read by an independent parser is the value handed over, and both paths write the same item",
		Template: `package ttlv

import (
	"bytes"
	"encoding/binary"
	"math"
	"math/big"
	"reflect"
	"testing"
)

func TestGocvReplay(t *testing.T) {
	vals := []any{int8(math.MinInt8), int8(-1), int8(0), int8(math.MaxInt8), int16(math.MinInt16), int16(math.MaxInt16), int32(math.MinInt32), int32(-1), int32(math.MaxInt32),
		int64(math.MinInt64), int64(-5000000000), int64(math.MaxInt64), int(-7), int(math.MaxInt32), uint8(0), uint8(200), uint8(math.MaxUint8), uint16(60000), uint16(math.MaxUint16),
		uint32(0), uint32(7), uint32(1 << 31), uint32(3000000000), uint32(math.MaxUint32), uint64(5000000000), uint64(1<<63 + 1), uint(9), true, false, "abc", "", []byte{1, 2, 3}}
	encode := func(v any, inStruct bool) (item []byte, refused bool) {
		defer func() {
			if recover() != nil {
				refused = true
			}
		}()
		enc := NewTTLVEncoder()
		if !inStruct {
			enc.TagAny(0x42000d, v)
			return enc.Bytes(), false
		}
		st := reflect.New(reflect.StructOf([]reflect.StructField{ {Name: "BatchCount", Type: reflect.TypeOf(v), Tag: "ttlv:\"0x42000d\""} })).Elem()
		st.Field(0).Set(reflect.ValueOf(v))
		enc.TagAny(0x420077, st.Interface())
		out := enc.Bytes()
		if len(out) < 8 {
			return out, false
		}
		return out[8:], false
	}
	for _, v := range vals {
		a, ra := encode(v, false)
		b, rb := encode(v, true)
		if ra != rb || !bytes.Equal(a, b) {
			t.Fatalf("GOCV-REPRODUCED: {{.Obligation}}: %T(%v) is written differently directly (% x, refused=%v) and as a structure field (% x, refused=%v)", v, v, a, ra, b, rb)
		}
		if ra {
			continue
		}
		if len(a) < 8 || a[0] != 0x42 || a[1] != 0x00 || a[2] != 0x0d || len(a) != 8+(int(binary.BigEndian.Uint32(a[4:8]))+7)/8*8 {
			t.Fatalf("GOCV-REPRODUCED: {{.Obligation}}: %T(%v) is written as a malformed item % x", v, v, a)
		}
		l := int(binary.BigEndian.Uint32(a[4:8]))
		want := new(big.Int)
		rv := reflect.ValueOf(v)
		switch {
		case rv.CanInt():
			want.SetInt64(rv.Int())
		case rv.CanUint():
			want.SetUint64(rv.Uint())
		}
		switch Type(a[3]) {
		case TypeInteger:
			if got := big.NewInt(int64(int32(binary.BigEndian.Uint32(a[8:12])))); l != 4 || !(rv.CanInt() || rv.CanUint()) || got.Cmp(want) != 0 {
				t.Fatalf("GOCV-REPRODUCED: {{.Obligation}}: %T(%v) is written as the Integer %v (% x)", v, v, got, a)
			}
		case TypeLongInteger:
			if got := big.NewInt(int64(binary.BigEndian.Uint64(a[8:16]))); l != 8 || !(rv.CanInt() || rv.CanUint()) || got.Cmp(want) != 0 {
				t.Fatalf("GOCV-REPRODUCED: {{.Obligation}}: %T(%v) is written as the Long Integer %v (% x)", v, v, got, a)
			}
		case TypeBoolean:
			if bv, ok := v.(bool); !ok || l != 8 || (binary.BigEndian.Uint64(a[8:16]) == 1) != bv || binary.BigEndian.Uint64(a[8:16]) > 1 {
				t.Fatalf("GOCV-REPRODUCED: {{.Obligation}}: %T(%v) is written as the Boolean % x", v, v, a)
			}
		case TypeTextString:
			if sv, ok := v.(string); !ok || string(a[8:8+l]) != sv {
				t.Fatalf("GOCV-REPRODUCED: {{.Obligation}}: %T(%v) is written as the Text String % x", v, v, a)
			}
		case TypeByteString:
			if bs, ok := v.([]byte); !ok || !bytes.Equal(a[8:8+l], bs) {
				t.Fatalf("GOCV-REPRODUCED: {{.Obligation}}: %T(%v) is written as the Byte String % x", v, v, a)
			}
		default:
			t.Fatalf("GOCV-REPRODUCED: {{.Obligation}}: %T(%v) is written with type %d (% x)", v, v, a[3], a)
		}
	}
}
`}
	// interval range (C03): what the binary writer does with durations around the 32-bit limit
	replayers["scenario:C03-interval"] = &Replayer{PkgDir: "ttlv", Oracle: "whole-second durations 0, 1 s, 2^31 s, 2^32-1 s, 2^32 s, 2^32+1 s, 200 years, the largest Duration, and 2^32-1 s and 7 s plus 999999999 ns handed to the binary writer: either the call is refused (panic) or the item written is a well-formed Interval whose 32-bit value is the number of seconds handed in",
		Template: `package ttlv

import (
	"encoding/binary"
	"testing"
	"time"
)

func TestGocvReplay(t *testing.T) {
	for i, secs := range []int64{0, 1, 1 << 31, 1<<32 - 1, 1 << 32, 1<<32 + 1, 200 * 365 * 24 * 3600, int64(1<<63-1) / int64(time.Second), 1<<32 - 1, 7} {
		d := time.Duration(secs) * time.Second
		if i >= 8 {
			// not a whole number of seconds: the item carries the whole seconds
			d += 999999999 * time.Nanosecond
		}
		var out []byte
		refused := false
		func() {
			defer func() {
				if recover() != nil {
					refused = true
				}
			}()
			enc := NewTTLVEncoder()
			enc.Interval(0x420049, d)
			out = enc.Bytes()
		}()
		if refused {
			continue
		}
		if len(out) != 16 || out[3] != byte(TypeInterval) || binary.BigEndian.Uint32(out[4:8]) != 4 {
			t.Fatalf("GOCV-REPRODUCED: {{.Obligation}}: Interval of %d s is written as a malformed item % x", secs, out)
		}
		if got := int64(binary.BigEndian.Uint32(out[8:12])); got != secs {
			t.Fatalf("GOCV-REPRODUCED: {{.Obligation}}: Interval of %d s is written as %d s (% x)", secs, got, out)
		}
	}
}
`}
	replayers["(*ttlv.ttlvWriter).Interval"] = replayers["scenario:C03-interval"]
	// a call racing with the end of the connection (C11, stress witness: schedule dependent, bounded in time)
	replayers["scenario:C11-sendrace"] = &Replayer{PkgDir: "kmipclient", Oracle: "3 s of calls on a client whose scripted connections are closed by the peer 0 to 30 microseconds after being dialled: every call returns (a response or an error), none panics (schedule dependent: a stress witness, not an exhaustive exploration)",
		Template: `package kmipclient_test

import (
	"context"
	"math/rand"
	"net"
	"testing"
	"time"

	"github.com/ovh/kmip-go"
	"github.com/ovh/kmip-go/kmipclient"
	"github.com/ovh/kmip-go/payloads"
)

func TestGocvReplay(t *testing.T) {
	rng := rand.New(rand.NewSource(7))
	dialer := func(ctx context.Context) (net.Conn, error) {
		cli, srv := net.Pipe()
		d := time.Duration(rng.Intn(30)) * time.Microsecond
		go func() {
			deadline := time.Now().Add(d)
			for time.Now().Before(deadline) {
			}
			srv.Close()
		}()
		return cli, nil
	}
	client, err := kmipclient.Dial("scripted", kmipclient.WithDialerUnsafe(dialer), kmipclient.EnforceVersion(kmip.V1_4))
	if err != nil {
		t.Fatal(err)
	}
	defer client.Close()
	end := time.Now().Add(3 * time.Second)
	for n := 0; time.Now().Before(end); n++ {
		func() {
			defer func() {
				if p := recover(); p != nil {
					t.Fatalf("GOCV-REPRODUCED: {{.Obligation}}: call %d on a connection that the peer closes while the call starts panicked: %v", n, p)
				}
			}()
			ctx, cancel := context.WithTimeout(context.Background(), time.Second)
			defer cancel()
			_, _ = client.Request(ctx, &payloads.ActivateRequestPayload{UniqueIdentifier: "x"})
		}()
	}
}
`}
	// a response the encoder refuses (C08): the write loop must not let the panic end the process
	replayers["scenario:C08-unencodable"] = &Replayer{PkgDir: "kmipserver", Oracle: "the write loop of a server connection is handed a response whose payload the encoder refuses (Obtain Lease with a negative lease time; an interval above 2^32 s): it reports an error to the sender and returns, it does not panic (run synchronously so that a panic is observed instead of ending the test process)",
		Template: `package kmipserver

import (
	"context"
	"log/slog"
	"net"
	"testing"
	"time"

	"github.com/ovh/kmip-go"
	"github.com/ovh/kmip-go/payloads"
	"github.com/ovh/kmip-go/ttlv"
)

func TestGocvReplay(t *testing.T) {
	for _, lease := range []time.Duration{-time.Second, time.Duration(1<<33) * time.Second} {
		a, b := net.Pipe()
		go func() {
			buf := make([]byte, 4096)
			for {
				if _, err := b.Read(buf); err != nil {
					return
				}
			}
		}()
		ctx, cancel := context.WithCancelCause(context.Background())
		c := &conn{stream: ttlv.NewStream(a, -1), rx: make(chan rxMsg), ctx: ctx, cancel: cancel, logger: slog.Default()}
		tx := make(chan txMsg)
		c.tx.Store(tx)
		errCh := make(chan error, 1)
		resp := &kmip.ResponseMessage{Header: kmip.ResponseHeader{ProtocolVersion: kmip.V1_4, BatchCount: 1}, BatchItem: []kmip.ResponseBatchItem{ {Operation: kmip.OperationObtainLease,
			ResponsePayload: &payloads.ObtainLeaseResponsePayload{UniqueIdentifier: "x", LeaseTime: lease}} }}
		go func() { tx <- txMsg{msg: resp, err: errCh} }()
		done := make(chan any, 1)
		go func() {
			defer func() { done <- recover() }()
			c.writeloop()
		}()
		select {
		case p := <-done:
			if p != nil {
				t.Fatalf("GOCV-REPRODUCED: {{.Obligation}}: the write loop panics on a response with a lease time of %v: %v (in the server this goroutine has no recover: the process ends)", lease, p)
			}
		case <-time.After(3 * time.Second):
			t.Fatalf("GOCV-REPRODUCED: {{.Obligation}}: the write loop neither failed nor returned within 3 s for a lease time of %v", lease)
		}
		select {
		case err := <-errCh:
			if err == nil {
				t.Fatalf("GOCV-REPRODUCED: {{.Obligation}}: a response with a lease time of %v was reported as sent", lease)
			}
		case <-time.After(time.Second):
			t.Fatalf("GOCV-REPRODUCED: {{.Obligation}}: the sender was not told that the response with a lease time of %v could not be written", lease)
		}
		cancel(nil)
		a.Close()
		b.Close()
	}
}
`}
	replayers["(*kmipserver.conn).writeloop"] = replayers["scenario:C08-unencodable"]
	// a deadline expiring while the request is being written (C11): the exchange is abandoned with its connection
	replayers["scenario:C11-stale"] = &Replayer{PkgDir: "kmipclient", Oracle: "a call whose deadline expires while its request is blocked in the write (the peer is not reading) fails; when the peer then reads and answers everything it receives, the next call gets the answer to its own request (over a fresh connection), never the answer to the abandoned one",
		Template: `package kmipclient_test

import (
	"context"
	"net"
	"sync/atomic"
	"testing"
	"time"

	"github.com/ovh/kmip-go"
	"github.com/ovh/kmip-go/kmipclient"
	"github.com/ovh/kmip-go/payloads"
	"github.com/ovh/kmip-go/ttlv"
)

// Scripted transport: every dialled connection is a net.Pipe whose server side waits for the gate,
// then answers each Activate request with the identifier it received.
//
// Call 1 times out while its request is being written (the peer is not reading yet). The connection is
// then in an unknown state and must not be reused: call 2 has to get the answer to ITS OWN request.
func TestGocvReplay(t *testing.T) {
	gate := make(chan struct{})
	var dials atomic.Int32

	serve := func(srv net.Conn) {
		defer srv.Close()
		<-gate
		stream := ttlv.NewStream(srv, -1)
		for {
			var req kmip.RequestMessage
			if err := stream.Recv(&req); err != nil {
				return
			}
			id := ""
			if len(req.BatchItem) == 1 {
				if pl, ok := req.BatchItem[0].RequestPayload.(*payloads.ActivateRequestPayload); ok {
					id = pl.UniqueIdentifier
				}
			}
			resp := kmip.ResponseMessage{
				Header: kmip.ResponseHeader{ProtocolVersion: req.Header.ProtocolVersion, TimeStamp: time.Now(), BatchCount: 1},
				BatchItem: []kmip.ResponseBatchItem{ {
					Operation:       kmip.OperationActivate,
					ResultStatus:    kmip.ResultStatusSuccess,
					ResponsePayload: &payloads.ActivateResponsePayload{UniqueIdentifier: id},
				}},
			}
			if err := stream.Send(&resp); err != nil {
				return
			}
		}
	}
	dialer := func(ctx context.Context) (net.Conn, error) {
		cli, srv := net.Pipe()
		dials.Add(1)
		go serve(srv)
		return cli, nil
	}

	client, err := kmipclient.Dial("scripted", kmipclient.WithDialerUnsafe(dialer), kmipclient.EnforceVersion(kmip.V1_4))
	if err != nil {
		t.Fatalf("dial: %v", err)
	}
	defer client.Close()

	type result struct {
		pl  kmip.OperationPayload
		err error
	}
	call := func(id string, timeout time.Duration) result {
		done := make(chan result, 1)
		go func() {
			ctx, cancel := context.WithTimeout(context.Background(), timeout)
			defer cancel()
			pl, err := client.Request(ctx, &payloads.ActivateRequestPayload{UniqueIdentifier: id})
			done <- result{pl, err}
		}()
		select {
		case r := <-done:
			return r
		case <-time.After(5 * time.Second):
			t.Fatalf("GOCV-REPRODUCED: {{.Obligation}}: call %q hangs", id)
			return result{}
		}
	}

	// Call 1: the peer does not read, the write stays blocked, the caller's deadline (100ms) expires.
	r1 := call("first", 100*time.Millisecond)
	if r1.err == nil {
		t.Fatalf("GOCV-REPRODUCED: {{.Obligation}}: call 1: expected a timeout error, got payload %#v", r1.pl)
	}

	// The peer starts reading now.
	close(gate)

	// Call 2: must be answered for "second" (on the unmodified code: over a fresh connection).
	r2 := call("second", 3*time.Second)
	if r2.err != nil {
		t.Fatalf("GOCV-REPRODUCED: {{.Obligation}}: call 2: unexpected error: %v (dials=%d)", r2.err, dials.Load())
	}
	got, ok := r2.pl.(*payloads.ActivateResponsePayload)
	if !ok {
		t.Fatalf("GOCV-REPRODUCED: {{.Obligation}}: call 2: unexpected payload %T", r2.pl)
	}
	if got.UniqueIdentifier != "second" {
		t.Fatalf("GOCV-REPRODUCED: {{.Obligation}}: call 2 for %q received the response of another exchange: %q (dials=%d)", "second", got.UniqueIdentifier, dials.Load())
	}
}
`}
	// cluster dialer (C11): connecting never panics
	replayers["scenario:C11-cluster"] = &Replayer{PkgDir: "kmipclient", Oracle: "DialCluster against an address nobody listens on, without and with a retry timeout: the call returns an error, it does not panic",
		Template: `package kmipclient_test

import (
	"testing"
	"time"

	"github.com/ovh/kmip-go/kmipclient"
)

func TestGocvReplay(t *testing.T) {
	for i, opts := range [][]kmipclient.Option{nil, {kmipclient.WithRetryTimeout(time.Second)}} {
		func() {
			defer func() {
				if p := recover(); p != nil {
					t.Fatalf("GOCV-REPRODUCED: {{.Obligation}}: DialCluster (option set %d) against an unreachable address panics: %v", i, p)
				}
			}()
			c, err := kmipclient.DialCluster([]string{"127.0.0.1:1"}, opts...)
			if err == nil {
				_ = c.Close()
			}
		}()
	}
}
`}
	// registration builders (C14): every curve and every format the client can register an EC key in
	replayers["scenario:C14-register"] = &Replayer{PkgDir: "kmipclient", Oracle: "freshly generated ECDSA keys on P-224, P-256, P-384 and P-521 and an RSA key, given to the Register builders in every key format (transparent, SEC1 / PKCS#1, PKCS#8, X.509) at protocol versions 1.2 and 1.4: the builder reports no error, and the object it builds, after a binary TTLV round trip of the request payload, is extracted by the accessors equal to the original key",
		Template: `package kmipclient

import (
	"crypto/ecdsa"
	"crypto/elliptic"
	"crypto/rand"
	"crypto/rsa"
	"testing"

	"github.com/ovh/kmip-go"
	"github.com/ovh/kmip-go/payloads"
	"github.com/ovh/kmip-go/ttlv"
)

func TestGocvReplay(t *testing.T) {
	transport := func(t *testing.T, what string, ex ExecRegister) kmip.Object {
		if ex.err != nil {
			t.Fatalf("GOCV-REPRODUCED: {{.Obligation}}: %s: the Register builder reports %v", what, ex.err)
		}
		msg := kmip.NewRequestMessage(kmip.V1_4, ex.req)
		var back kmip.RequestMessage
		if err := ttlv.UnmarshalTTLV(ttlv.MarshalTTLV(&msg), &back); err != nil || len(back.BatchItem) != 1 {
			t.Fatalf("GOCV-REPRODUCED: {{.Obligation}}: %s: the request does not decode: %v", what, err)
		}
		pl, ok := back.BatchItem[0].RequestPayload.(*payloads.RegisterRequestPayload)
		if !ok {
			t.Fatalf("GOCV-REPRODUCED: {{.Obligation}}: %s: the request payload decodes as %T", what, back.BatchItem[0].RequestPayload)
		}
		return pl.Object
	}
	rk, _ := rsa.GenerateKey(rand.Reader, 1024)
	for _, v := range []kmip.ProtocolVersion{kmip.V1_2, kmip.V1_4} {
		ver := v
		c := &Client{supportedVersions: []kmip.ProtocolVersion{v}, version: &ver}
		for _, curve := range []elliptic.Curve{elliptic.P224(), elliptic.P256(), elliptic.P384(), elliptic.P521()} {
			key, err := ecdsa.GenerateKey(curve, rand.Reader)
			if err != nil {
				t.Fatal(err)
			}
			for _, f := range []KeyFormat{Transparent, SEC1, PKCS8} {
				what := curve.Params().Name + " private key"
				obj, ok := transport(t, what, c.Register().WithKeyFormat(f).EcdsaPrivateKey(key, kmip.CryptographicUsageSign)).(*kmip.PrivateKey)
				if !ok {
					t.Fatalf("GOCV-REPRODUCED: {{.Obligation}}: %s (format %d): not a private key object", what, f)
				}
				if got, err := obj.ECDSA(); err != nil || !got.Equal(key) {
					t.Fatalf("GOCV-REPRODUCED: {{.Obligation}}: %s registered in format %d at %d.%d is extracted with err=%v, equal=%v", what, f, v.ProtocolVersionMajor, v.ProtocolVersionMinor, err, err == nil && got.Equal(key))
				}
			}
			for _, f := range []KeyFormat{Transparent, X509} {
				what := curve.Params().Name + " public key"
				obj, ok := transport(t, what, c.Register().WithKeyFormat(f).EcdsaPublicKey(&key.PublicKey, kmip.CryptographicUsageVerify)).(*kmip.PublicKey)
				if !ok {
					t.Fatalf("GOCV-REPRODUCED: {{.Obligation}}: %s (format %d): not a public key object", what, f)
				}
				if got, err := obj.ECDSA(); err != nil || !got.Equal(&key.PublicKey) {
					t.Fatalf("GOCV-REPRODUCED: {{.Obligation}}: %s registered in format %d at %d.%d is extracted with err=%v, equal=%v", what, f, v.ProtocolVersionMajor, v.ProtocolVersionMinor, err, err == nil && got.Equal(&key.PublicKey))
				}
			}
		}
		for _, f := range []KeyFormat{Transparent, PKCS1, PKCS8} {
			obj, ok := transport(t, "RSA private key", c.Register().WithKeyFormat(f).RsaPrivateKey(rk, kmip.CryptographicUsageSign)).(*kmip.PrivateKey)
			if !ok {
				t.Fatalf("GOCV-REPRODUCED: {{.Obligation}}: RSA private key (format %d): not a private key object", f)
			}
			if got, err := obj.RSA(); err != nil || got.N.Cmp(rk.N) != 0 || got.D.Cmp(rk.D) != 0 || got.E != rk.E {
				t.Fatalf("GOCV-REPRODUCED: {{.Obligation}}: RSA private key registered in format %d is extracted with err=%v or another modulus / exponent", f, err)
			}
		}
	}
}
`}
	// shutdown grace (C16): a request in flight that completes within the grace period is answered
	replayers["scenario:C16-grace"] = &Replayer{PkgDir: "kmipserver", Oracle: "one connection, one request whose handler is released 300 ms after Shutdown has been called: the request completes within the grace period and its response reaches the client; Shutdown returns",
		Template: `package kmipserver

import (
	"context"
	"net"
	"testing"
	"time"

	"github.com/ovh/kmip-go"
	"github.com/ovh/kmip-go/payloads"
	"github.com/ovh/kmip-go/ttlv"
)

type seed8BlockingHandler struct {
	started chan struct{}
	release chan struct{}
}

func (h *seed8BlockingHandler) HandleRequest(ctx context.Context, req *kmip.RequestMessage) *kmip.ResponseMessage {
	close(h.started)
	<-h.release
	return &kmip.ResponseMessage{
		Header: kmip.ResponseHeader{ProtocolVersion: req.Header.ProtocolVersion, TimeStamp: time.Now(), BatchCount: 1},
		BatchItem: []kmip.ResponseBatchItem{ {
			Operation:       kmip.OperationDiscoverVersions,
			ResultStatus:    kmip.ResultStatusSuccess,
			ResponsePayload: &payloads.DiscoverVersionsResponsePayload{},
		}},
	}
}

// A request in flight when Shutdown is called and that completes within the grace
// period must be answered.
func TestGocvReplay(t *testing.T) {
	ln, err := net.Listen("tcp", "127.0.0.1:0")
	if err != nil {
		t.Fatal(err)
	}
	h := &seed8BlockingHandler{started: make(chan struct{}), release: make(chan struct{})}
	srv := NewServer(ln, h)
	go func() { _ = srv.Serve() }()

	c, err := net.Dial("tcp", ln.Addr().String())
	if err != nil {
		t.Fatal(err)
	}
	defer c.Close()
	stream := ttlv.NewStream(c, 1<<20)
	req := kmip.NewRequestMessage(kmip.V1_4, &payloads.DiscoverVersionsRequestPayload{})
	if err := stream.Send(&req); err != nil {
		t.Fatal(err)
	}
	select {
	case <-h.started:
	case <-time.After(5 * time.Second):
		t.Fatal("handler not started")
	}
	shut := make(chan error, 1)
	go func() { shut <- srv.Shutdown() }()
	time.Sleep(300 * time.Millisecond) // shutdown in progress, well inside the 3s grace period
	close(h.release)
	select {
	case <-shut:
	case <-time.After(10 * time.Second):
		t.Fatalf("GOCV-REPRODUCED: {{.Obligation}}: Shutdown did not return")
	}
	_ = c.SetReadDeadline(time.Now().Add(5 * time.Second))
	var resp kmip.ResponseMessage
	if err := stream.Recv(&resp); err != nil {
		t.Fatalf("GOCV-REPRODUCED: {{.Obligation}}: in-flight request completed within the grace period but was not answered: %v", err)
	}
	if len(resp.BatchItem) != 1 || resp.BatchItem[0].ResultStatus != kmip.ResultStatusSuccess {
		t.Fatalf("GOCV-REPRODUCED: {{.Obligation}}: unexpected response %+v", resp)
	}
}
`}
	// abandoned exchange (C11): the writer goroutine must end when the caller has given up
	replayers["scenario:C11-writeloop"] = &Replayer{PkgDir: "kmipclient", Oracle: "a request is handed to the writer goroutine over a pipe whose peer never reads, the caller's context is cancelled while the write is blocked, the connection is closed: send returns and, within 2 s, no goroutine of the connection is left blocked on a channel send",
		Template: `package kmipclient

import (
	"context"
	"net"
	"runtime"
	"strings"
	"testing"
	"time"

	"github.com/ovh/kmip-go"
	"github.com/ovh/kmip-go/payloads"
)

func TestGocvReplay(t *testing.T) {
	a, b := net.Pipe() // b never reads: the write of the request blocks
	defer b.Close()
	c := newConn(a)
	ctx, cancel := context.WithCancel(context.Background())
	msg := kmip.NewRequestMessage(kmip.V1_4, &payloads.ActivateRequestPayload{UniqueIdentifier: "x"})
	done := make(chan error, 1)
	go func() { done <- c.send(ctx, &msg) }()
	time.Sleep(100 * time.Millisecond) // the writeloop has taken the message and is blocked in Write
	cancel()                           // the caller gives up: send terminates the connection and returns
	select {
	case <-done:
	case <-time.After(2 * time.Second):
		t.Fatalf("GOCV-REPRODUCED: {{.Obligation}}: send did not return after its context was cancelled")
	}
	_ = c.Close()
	deadline := time.Now().Add(2 * time.Second)
	for {
		buf := make([]byte, 1<<20)
		buf = buf[:runtime.Stack(buf, true)]
		leaked := false
		for _, g := range strings.Split(string(buf), "\n\n") {
			if strings.Contains(g, "(*conn).writeloop") && strings.Contains(g, "chan send") {
				leaked = true
			}
		}
		if !leaked {
			return
		}
		if time.Now().After(deadline) {
			t.Fatalf("GOCV-REPRODUCED: {{.Obligation}}: the writeloop goroutine is still blocked on its error channel 2 s after the connection was closed")
		}
		time.Sleep(50 * time.Millisecond)
	}
}
`}
	// bit masks in the text forms (C17): what is written by name (or as a hexadecimal rest) is read back
	replayers["scenario:C17-masks"] = &Replayer{PkgDir: ".", Oracle: "Cryptographic Usage Mask and Storage Status Mask values 0, single and combined registered flags, all registered flags, unregistered bits 20, 24, 30 and 31, all ones: each value written in JSON, XML and binary form is read back as the same number",
		Template: `package kmip_test

import (
	"testing"

	"github.com/ovh/kmip-go"
	"github.com/ovh/kmip-go/ttlv"
)

func TestGocvReplay(t *testing.T) {
	type codec struct {
		name string
		enc  func(any) []byte
		dec  func([]byte, any) error
	}
	for _, c := range []codec{ {"json", ttlv.MarshalJSON, ttlv.UnmarshalJSON}, {"xml", ttlv.MarshalXML, ttlv.UnmarshalXML}, {"ttlv", ttlv.MarshalTTLV, ttlv.UnmarshalTTLV}} {
		for _, v := range []int32{0, 1, 2, 3, 0x000FFFFF, 1 << 20, 1 << 24, 1 << 30, -2147483648, -1, 0x40000001} {
			m := kmip.CryptographicUsageMask(v)
			doc := c.enc(m)
			var back kmip.CryptographicUsageMask
			if err := c.dec(doc, &back); err != nil {
				t.Fatalf("GOCV-REPRODUCED: {{.Obligation}}: %s: usage mask %#x written as %s cannot be read back: %v", c.name, uint32(v), doc, err)
				continue
			}
			if back != m {
				t.Fatalf("GOCV-REPRODUCED: {{.Obligation}}: %s: usage mask %#x written as %s reads back as %#x", c.name, uint32(v), doc, uint32(back))
			}
			s := kmip.StorageStatusMask(v)
			doc = c.enc(s)
			var sb kmip.StorageStatusMask
			if err := c.dec(doc, &sb); err != nil {
				t.Fatalf("GOCV-REPRODUCED: {{.Obligation}}: %s: storage mask %#x written as %s cannot be read back: %v", c.name, uint32(v), doc, err)
			} else if sb != s {
				t.Fatalf("GOCV-REPRODUCED: {{.Obligation}}: %s: storage mask %#x written as %s reads back as %#x", c.name, uint32(v), doc, uint32(sb))
			}
		}
	}
	// the text marshalers of the mask types, and the documented fallback of EnumStr
	for _, v := range []int32{0, 1, 3, 1 << 20, 1 << 30, -2147483648, -1} {
		m := kmip.CryptographicUsageMask(v)
		txt, err := m.MarshalText()
		if err != nil {
			t.Fatalf("GOCV-REPRODUCED: {{.Obligation}}: MarshalText of usage mask %#x: %v", uint32(v), err)
		}
		var back kmip.CryptographicUsageMask
		if err := back.UnmarshalText(txt); err != nil || back != m {
			t.Fatalf("GOCV-REPRODUCED: {{.Obligation}}: usage mask %#x marshals to the text %q which reads back as %#x (err=%v)", uint32(v), txt, uint32(back), err)
		}
	}
	if a, b := ttlv.EnumStr(kmip.ResultReason(0x99)), ttlv.EnumStr(kmip.ResultReason(0x98)); a == b || a == "" {
		t.Fatalf("GOCV-REPRODUCED: {{.Obligation}}: EnumStr gives %q and %q for the unregistered Result Reason values 0x99 and 0x98: two numbers share one text", a, b)
	}

}
`}
	// big integers (C18 / C01): the two's-complement conversions run through math/big and carry loops whose
	// functional specification is not discharged; this bounded check stands in for them
	replayers["scenario:C18-bigint"] = &Replayer{PkgDir: "ttlv", Oracle: "every accepted binary Big Integer item from a grid of value patterns (lengths 8, 16 and 24 bytes; all-zero, all-ones, sign-boundary and redundant sign-extension patterns; 2000 pseudo-random values with a fixed seed) decodes, re-encodes, decodes again to the same number, and the second re-encoding is byte-identical to the first; 1206 numbers around the powers of two up to 2^200 with both signs are written as well-formed items whose bytes denote the number in two's complement",
		Template: `package ttlv

import (
	"bytes"
	"math/big"
	"math/rand"
	"testing"
)

func TestGocvReplay(t *testing.T) {
	var inputs [][]byte
	for _, n := range []int{8, 16, 24} {
		for _, fill := range []byte{0x00, 0xFF, 0x80, 0x7F, 0x01} {
			v := bytes.Repeat([]byte{fill}, n)
			inputs = append(inputs, v)
			for _, lead := range []byte{0x00, 0xFF, 0x80, 0x7F} {
				w := append([]byte{}, v...)
				w[0] = lead
				inputs = append(inputs, w)
				x := append([]byte{}, v...)
				x[n-8] = lead // first byte of the last word: redundant sign extension in front of it
				inputs = append(inputs, x)
			}
		}
	}
	rng := rand.New(rand.NewSource(1))
	for i := 0; i < 2000; i++ {
		v := make([]byte, 8*(1+rng.Intn(3)))
		rng.Read(v)
		switch rng.Intn(4) {
		case 0:
			for j := 0; j < len(v)-8; j++ {
				v[j] = 0xFF
			}
		case 1:
			for j := 0; j < len(v)-8; j++ {
				v[j] = 0x00
			}
		}
		inputs = append(inputs, v)
	}
	item := func(val []byte) []byte {
		b := []byte{0x42, 0x00, 0x3C, 0x04, 0, 0, 0, byte(len(val))}
		return append(b, val...)
	}
	for _, val := range inputs {
		in := item(val)
		r1, err := newTTLVReader(in)
		if err != nil {
			continue
		}
		n1, err := r1.BigInteger(0x42003C)
		if err != nil {
			continue // not accepted: nothing to say
		}
		w1 := &ttlvWriter{}
		w1.BigInteger(0x42003C, n1)
		r2, err := newTTLVReader(w1.Bytes())
		if err != nil {
			t.Fatalf("GOCV-REPRODUCED: {{.Obligation}}: the re-encoding %x of the accepted big integer %x is rejected: %v", w1.Bytes(), in, err)
		}
		n2, err := r2.BigInteger(0x42003C)
		if err != nil {
			t.Fatalf("GOCV-REPRODUCED: {{.Obligation}}: the re-encoding %x of the accepted big integer %x is rejected: %v", w1.Bytes(), in, err)
		}
		if n1.Cmp(n2) != 0 {
			t.Fatalf("GOCV-REPRODUCED: {{.Obligation}}: big integer %x decodes to %s, its re-encoding %x decodes to %s", in, n1, w1.Bytes(), n2)
		}
		w2 := &ttlvWriter{}
		w2.BigInteger(0x42003C, n2)
		if !bytes.Equal(w1.Bytes(), w2.Bytes()) {
			t.Fatalf("GOCV-REPRODUCED: {{.Obligation}}: second re-encoding of %x differs: %x then %x", in, w1.Bytes(), w2.Bytes())
		}
		// the value read is the two's-complement value of the bytes
		want := new(big.Int).SetBytes(val)
		if val[0]&0x80 != 0 {
			want.Sub(want, new(big.Int).Lsh(big.NewInt(1), uint(8*len(val))))
		}
		if want.Cmp(n1) != 0 {
			t.Fatalf("GOCV-REPRODUCED: {{.Obligation}}: big integer bytes %x denote %s but decode to %s", val, want, n1)
		}
	}
	// encoder side: numbers around every power of two up to 2^200, both signs, against an independent
	// two's-complement reading of the bytes written
	for k := 0; k <= 200; k++ {
		for _, delta := range []int64{-1, 0, 1} {
			for _, sign := range []int64{1, -1} {
				n := new(big.Int).Lsh(big.NewInt(1), uint(k))
				n.Add(n, big.NewInt(delta))
				n.Mul(n, big.NewInt(sign))
				w := &ttlvWriter{}
				w.BigInteger(0x42003C, n)
				b := w.Bytes()
				if len(b) < 16 || len(b)%8 != 0 || b[3] != 0x04 || int(b[4])<<24|int(b[5])<<16|int(b[6])<<8|int(b[7]) != len(b)-8 {
					t.Fatalf("GOCV-REPRODUCED: {{.Obligation}}: big integer %s is written as a malformed item %x", n, b)
				}
				val := b[8:]
				got := new(big.Int).SetBytes(val)
				if val[0]&0x80 != 0 {
					got.Sub(got, new(big.Int).Lsh(big.NewInt(1), uint(8*len(val))))
				}
				if got.Cmp(n) != 0 {
					t.Fatalf("GOCV-REPRODUCED: {{.Obligation}}: big integer %s is written as %x, which denotes %s", n, val, got)
				}
			}
		}
	}
}
`}
	// text decoders (C02): encoding/xml and encoding/json are external; the readers built on them are swept for
	// explicit panics and failing assertions, and this bounded check feeds them malformed documents
	replayers["scenario:C02-text"] = &Replayer{PkgDir: ".", Oracle: "a fixed corpus of malformed XML and JSON documents (top-level scalars and null, unknown type names, truncated and spliced documents) plus 20000 seeded random mutations of two encoded messages per encoding are decoded without a panic (an error is the expected outcome)",
		Template: `package kmip_test

import (
	"fmt"
	"math/rand"
	"testing"
	"time"

	"github.com/ovh/kmip-go"
	"github.com/ovh/kmip-go/payloads"
	"github.com/ovh/kmip-go/ttlv"
)

func TestGocvReplay(t *testing.T) {
	raw := []byte{1, 2, 3, 4, 5, 6, 7, 8}
	ts := time.Unix(1700000000, 0)
	samples := []any{
		&kmip.RequestMessage{Header: kmip.RequestHeader{ProtocolVersion: kmip.V1_4, BatchCount: 2, TimeStamp: &ts, ClientCorrelationValue: "c"},
			BatchItem: []kmip.RequestBatchItem{
				{Operation: kmip.OperationLocate, UniqueBatchItemID: []byte{1}, RequestPayload: &payloads.LocateRequestPayload{MaximumItems: 3, StorageStatusMask: 3,
					Attribute: []kmip.Attribute{ {AttributeName: kmip.AttributeNameName, AttributeValue: kmip.Name{NameValue: "n", NameType: kmip.NameTypeUninterpretedTextString}},
						{AttributeName: kmip.AttributeNameCryptographicUsageMask, AttributeValue: kmip.CryptographicUsageSign | kmip.CryptographicUsageVerify},
						{AttributeName: "x-custom", AttributeValue: ttlv.Value{Value: int64(7)}}}}},
				{Operation: kmip.OperationRegister, RequestPayload: &payloads.RegisterRequestPayload{ObjectType: kmip.ObjectTypeSymmetricKey,
					Object: &kmip.SymmetricKey{KeyBlock: kmip.KeyBlock{KeyFormatType: kmip.KeyFormatTypeRaw, KeyValue: &kmip.KeyValue{Plain: &kmip.PlainKeyValue{KeyMaterial: kmip.KeyMaterial{Bytes: &raw}}}, CryptographicAlgorithm: kmip.CryptographicAlgorithmAES, CryptographicLength: 64}}}},
			}},
		&kmip.ResponseMessage{Header: kmip.ResponseHeader{ProtocolVersion: kmip.V1_4, TimeStamp: ts, BatchCount: 1},
			BatchItem: []kmip.ResponseBatchItem{ {Operation: kmip.OperationGet, ResultStatus: kmip.ResultStatusOperationFailed, ResultReason: kmip.ResultReasonItemNotFound, ResultMessage: "nope"}}},
	}
	type codec struct {
		name string
		enc  func(any) []byte
		dec  func([]byte, any) error
	}
	codecs := []codec{ {"xml", ttlv.MarshalXML, ttlv.UnmarshalXML}, {"json", ttlv.MarshalJSON, ttlv.UnmarshalJSON}}
	try := func(c codec, si int, doc []byte, what string) {
		defer func() {
			if p := recover(); p != nil {
				if len(doc) > 160 {
					doc = doc[:160]
				}
				t.Fatalf("GOCV-REPRODUCED: {{.Obligation}}: the %s decoder panics on %s: %v\n input: %q", c.name, what, p, doc)
			}
		}()
		if si == 0 {
			var m kmip.RequestMessage
			_ = c.dec(doc, &m)
		} else {
			var m kmip.ResponseMessage
			_ = c.dec(doc, &m)
		}
		// the generic container reads whatever type the document announces
		var v ttlv.Value
		_ = c.dec(doc, &v)
	}
	corpus := map[string][]string{
		"json": {"true", "false", "null", "1", "\"x\"", "[]", "[1]", "{}", "{\"tag\":1}", "{\"tag\":\"RequestMessage\",\"type\":\"Nope\",\"value\":[]}",
			"{\"tag\":\"RequestMessage\",\"type\":7,\"value\":1}", "{\"tag\":\"RequestMessage\",\"value\":[true]}", "{\"tag\":\"RequestMessage\",\"value\":[{\"tag\":\"RequestHeader\",\"type\":\"IBteger\",\"value\":4}]}",
			"{\"tag\":\"Y\",\"type\":\"BigInteger\",\"value\":\"0x\"}", "{\"tag\":\"Y\",\"type\":\"BigInteger\",\"value\":\"\"}", "{\"tag\":\"Y\",\"type\":\"ByteString\",\"value\":\"\"}", "{\"tag\":\"Y\",\"type\":\"LongInteger\",\"value\":\"0x\"}", "{\"tag\":\"Y\",\"type\":\"Integer\",\"value\":\"\"}", "{\"tag\":\"Y\",\"type\":\"Enumeration\",\"value\":\"0x\"}", "{\"tag\":\"Y\",\"type\":\"DateTime\",\"value\":\"\"}", "{\"tag\":\"Y\",\"type\":\"Interval\",\"value\":\"\"}"},
		"xml": {"", "x", "<a/>", "<RequestMessage type=\"Nope\"/>", "<RequestMessage><RequestHeader type=\"IBteger\" value=\"1\"/></RequestMessage>", "<RequestMessage><RequestHeader></RequestMessage>",
			"<ResponseMessage type=\"\" value=\"\"/>",
			"<Y type=\"BigInteger\" value=\"\"/>", "<Y type=\"BigInteger\"/>", "<Y type=\"ByteString\" value=\"\"/>", "<Y type=\"Integer\" value=\"\"/>", "<Y type=\"LongInteger\" value=\"\"/>", "<Y type=\"Enumeration\" value=\"\"/>", "<Y type=\"DateTime\" value=\"\"/>", "<Y type=\"Interval\" value=\"\"/>", "<Y type=\"Boolean\" value=\"\"/>"},
	}
	for _, c := range codecs {
		for _, doc := range corpus[c.name] {
			try(c, 0, []byte(doc), "a malformed document")
			try(c, 1, []byte(doc), "a malformed document")
		}
	}
	rng := rand.New(rand.NewSource(42))
	for _, c := range codecs {
		for si, s := range samples {
			base := c.enc(s)
			for i := 0; i < 5000; i++ {
				b := append([]byte{}, base...)
				for k := 0; k < 1+rng.Intn(3); k++ {
					switch rng.Intn(5) {
					case 0:
						b[rng.Intn(len(b))] = byte(rng.Intn(256))
					case 1:
						b = b[:rng.Intn(len(b))]
					case 2:
						p := rng.Intn(len(b))
						b = append(b[:p], b[p+rng.Intn(len(b)-p):]...)
					case 3:
						p, q := rng.Intn(len(b)), rng.Intn(len(b))
						b[p], b[q] = b[q], b[p]
					case 4:
						p := rng.Intn(len(b))
						ins := []string{"-", "0x", "9999999999999999999999", "\"", "<", "null", "[", "{", "e9", "true", " "}[rng.Intn(11)]
						b = append(b[:p], append([]byte(ins), b[p:]...)...)
					}
					if len(b) == 0 {
						b = []byte{'x'}
					}
				}
				try(c, si, b, fmt.Sprintf("mutation %d of an encoded message", i))
			}
		}
	}
	// nesting: what sits inside an element the decoder does not know is never taken for a field of the enclosing
	// structure ("never takes content from outside the declared extent of the enclosing structure")
	nested := "<RequestMessage><RequestHeader><ProtocolVersion><ProtocolVersionMajor type=\"Integer\" value=\"1\"/><ProtocolVersionMinor type=\"Integer\" value=\"4\"/></ProtocolVersion><BatchCount type=\"Integer\" value=\"1\"/><Extra><Foo><Bar type=\"Integer\" value=\"1\"/></Foo><BatchItem><Operation type=\"Enumeration\" value=\"Destroy\"/><RequestPayload><UniqueIdentifier type=\"TextString\" value=\"smuggled\"/></RequestPayload></BatchItem></Extra></RequestHeader></RequestMessage>"
	var nm kmip.RequestMessage
	if err := ttlv.UnmarshalXML([]byte(nested), &nm); err == nil && len(nm.BatchItem) != 0 {
		t.Fatalf("GOCV-REPRODUCED: {{.Obligation}}: the XML decoder took a batch item nested inside an unknown element of the header for a batch item of the message: %+v", nm.BatchItem[0].RequestPayload)
	}

}
`}
	replayers["prefix:(*ttlv.jsonReader)."] = replayers["scenario:C02-text"]
	replayers["prefix:(*ttlv.xmlReader)."] = replayers["scenario:C02-text"]
	// connection faults, sequential part (C11)
	replayers["scenario:C11"] = &Replayer{PkgDir: "kmipclient", Oracle: "a client whose (re)connection failed can still be closed without panic and its calls fail; a call over connections that all end with EOF dials at most 4 times and returns an error",
		Template: `package kmipclient

import (
	"context"
	"errors"
	"net"
	"sync"
	"testing"

	"github.com/ovh/kmip-go"
	"github.com/ovh/kmip-go/payloads"
)

func TestGocvReplay(t *testing.T) {
	msg := kmip.NewRequestMessage(kmip.V1_4, &payloads.ActivateRequestPayload{UniqueIdentifier: "x"})
	{
		c := &Client{lock: new(sync.Mutex), dialer: func(ctx context.Context) (net.Conn, error) { return nil, errors.New("server down") }}
		if _, err := c.Roundtrip(context.Background(), &msg); err == nil {
			t.Fatalf("GOCV-REPRODUCED: {{.Obligation}}: call succeeded without a connection")
		}
		func() {
			defer func() {
				if p := recover(); p != nil {
					t.Fatalf("GOCV-REPRODUCED: {{.Obligation}}: Close after a failed (re)connection panics: %v", p)
				}
			}()
			_ = c.Close()
		}()
	}
	{
		dials := 0
		c := &Client{lock: new(sync.Mutex), dialer: func(ctx context.Context) (net.Conn, error) {
			dials++
			a, b := net.Pipe()
			go func() { buf := make([]byte, 4096); b.Read(buf); b.Close() }()
			return a, nil
		}}
		_, err := c.Roundtrip(context.Background(), &msg)
		if err == nil || dials > 4 {
			t.Fatalf("GOCV-REPRODUCED: {{.Obligation}}: server closing after each request: err=%v after %d dials (at most 4 transmissions expected)", err, dials)
		}
		_ = c.Close()
	}
}
`}
	replayers["scenario:C11-recover"] = &Replayer{PkgDir: "kmipclient", Oracle: "a connection that dies with each kind of fault (end of stream, reset-style read error, write error, undecodable response) fails the pending call with an error and the NEXT call dials a fresh connection and succeeds on a reachable server; a closed client keeps failing without dialling",
		Template: `package kmipclient

import (
	"context"
	"errors"
	"net"
	"sync"
	"testing"
	"time"

	"github.com/ovh/kmip-go"
	"github.com/ovh/kmip-go/payloads"
	"github.com/ovh/kmip-go/ttlv"
)

// gocvFaulty wraps the client end of a pipe; after arm() its Read or Write fails with a reset-style error.
type gocvFaulty struct {
	net.Conn
	mu       sync.Mutex
	readErr  error
	writeErr error
}

func (f *gocvFaulty) Read(p []byte) (int, error) {
	f.mu.Lock()
	e := f.readErr
	f.mu.Unlock()
	if e != nil {
		return 0, e
	}
	return f.Conn.Read(p)
}

func (f *gocvFaulty) Write(p []byte) (int, error) {
	f.mu.Lock()
	e := f.writeErr
	f.mu.Unlock()
	if e != nil {
		return 0, e
	}
	return f.Conn.Write(p)
}

func TestGocvReplay(t *testing.T) {
	okResp := kmip.ResponseMessage{Header: kmip.ResponseHeader{ProtocolVersion: kmip.V1_4, BatchCount: 1},
		BatchItem: []kmip.ResponseBatchItem{ {Operation: kmip.OperationActivate, ResultStatus: kmip.ResultStatusSuccess, ResponsePayload: &payloads.ActivateResponsePayload{UniqueIdentifier: "x"}}}}
	okBytes := ttlv.MarshalTTLV(&okResp)
	reset := errors.New("read: connection reset by peer")
	for _, fault := range []string{"eof", "read-reset", "write-reset", "garbage"} {
		dials := 0
		var conns []*gocvFaulty
		answer := map[int]string{} // per connection: what the server does with the 2nd request
		c := &Client{lock: new(sync.Mutex), dialer: func(ctx context.Context) (net.Conn, error) {
			dials++
			n := dials
			a, b := net.Pipe()
			f := &gocvFaulty{Conn: a}
			conns = append(conns, f)
			go func() {
				s := ttlv.NewStream(b, 1<<20)
				for i := 0; ; i++ {
					var req kmip.RequestMessage
					if err := s.Recv(&req); err != nil {
						b.Close()
						return
					}
					if n == 1 && i == 1 {
						switch answer[1] {
						case "eof":
							b.Close()
							return
						case "read-reset":
							f.mu.Lock()
							f.readErr = reset
							f.mu.Unlock()
							// wake the reader blocked in the pipe
							b.Write(okBytes[:8])
							continue
						case "garbage":
							b.Write([]byte{0x42, 0x00, 0x7B, 0x0F, 0, 0, 0, 8, 1, 2, 3, 4, 5, 6, 7, 8})
							continue
						}
					}
					b.Write(okBytes)
				}
			}()
			return f, nil
		}}
		answer[1] = fault
		call := func() error {
			ctx, cancel := context.WithTimeout(context.Background(), 5*time.Second)
			defer cancel()
			msg := kmip.NewRequestMessage(kmip.V1_4, &payloads.ActivateRequestPayload{UniqueIdentifier: "x"})
			_, err := c.Roundtrip(ctx, &msg)
			return err
		}
		if err := call(); err != nil {
			t.Fatalf("setup (%s): first call failed: %v", fault, err)
		}
		if fault == "write-reset" {
			conns[0].mu.Lock()
			conns[0].writeErr = errors.New("write: connection reset by peer")
			conns[0].mu.Unlock()
		}
		err2 := call() // the call that meets the fault: a response or an error, both fine
		err3 := call() // at the latest this one runs on a fresh connection
		if err3 != nil {
			t.Fatalf("GOCV-REPRODUCED: {{.Obligation}}: after a %s fault on the connection (call 2: %v) the next call does not recover although the server is reachable: %v (dials so far: %d)", fault, err2, err3, dials)
		}
		d := dials
		_ = c.Close()
		if err := call(); err == nil || dials != d {
			t.Fatalf("GOCV-REPRODUCED: {{.Obligation}}: a call on a closed client: err=%v, dials %d -> %d", err, d, dials)
		}
	}
	// a client that lost its connection and could not redial, then is closed: calls keep failing, no dial
	{
		down := true
		dials := 0
		c := &Client{lock: new(sync.Mutex), dialer: func(ctx context.Context) (net.Conn, error) {
			dials++
			if down {
				return nil, errors.New("server down")
			}
			a, b := net.Pipe()
			go func() {
				s := ttlv.NewStream(b, 1<<20)
				for {
					var req kmip.RequestMessage
					if err := s.Recv(&req); err != nil {
						b.Close()
						return
					}
					b.Write(okBytes)
				}
			}()
			return a, nil
		}}
		msg := kmip.NewRequestMessage(kmip.V1_4, &payloads.ActivateRequestPayload{UniqueIdentifier: "x"})
		if _, err := c.Roundtrip(context.Background(), &msg); err == nil {
			t.Fatalf("setup: call succeeded while the server is down")
		}
		_ = c.Close()
		down = false
		d := dials
		if _, err := c.Roundtrip(context.Background(), &msg); err == nil || dials != d {
			t.Fatalf("GOCV-REPRODUCED: {{.Obligation}}: a client closed while it had no connection is used again: err=%v, dials %d -> %d", err, d, dials)
		}
	}
}
`}
	replayers["(*kmipclient.Client).Close"] = replayers["scenario:C11"]
	replayers["(*kmipclient.Client).doRountrip"] = replayers["scenario:C11-recover"]
	replayers["(*kmipclient.Client).reconnect"] = replayers["scenario:C11"]
	// registry bijection at run time (C17): everything registered is written by name and read back as the same number
	replayers["scenario:C17"] = &Replayer{PkgDir: ".", Oracle: "for every registered tag, enumeration value and bit-mask flag: the name written by the XML form is read back as the same number, and near misses of registered names (case variants, inserted punctuation, padding) are rejected (exhaustive over the run-time registry)",
		Template: `package kmip_test

import (
	"strings"
	"testing"

	"github.com/ovh/kmip-go"
	"github.com/ovh/kmip-go/ttlv"
)

func TestGocvReplay(t *testing.T) {
	_ = kmip.TagActivationDate
	for tag := 0x420000; tag < 0x420200; tag++ {
		name := ttlv.TagString(tag)
		if len(name) > 2 && name[:2] == "0x" {
			continue
		}
		// tags go through the XML form by name
		v := ttlv.Value{Tag: tag, Value: int32(7)}
		var back ttlv.Value
		if err := ttlv.UnmarshalXML(ttlv.MarshalXML(&v), &back); err != nil || back.Tag != tag {
			t.Fatalf("GOCV-REPRODUCED: {{.Obligation}}: tag 0x%06X written as %q is read back as 0x%06X (err %v)", tag, name, back.Tag, err)
		}
		byName := map[string]bool{}
		for _, ename := range ttlv.EnumValuesByTag(tag) {
			byName[ename] = true
		}
		for val, ename := range ttlv.EnumValuesByTag(tag) {
			got, err := ttlv.EnumByName(tag, ename)
			if err != nil || got != val {
				t.Fatalf("GOCV-REPRODUCED: {{.Obligation}}: %s value %d is written as %q which is read back as %d (err %v)", name, val, ename, got, err)
			}
			if n2 := ttlv.EnumName(tag, val); n2 != ename {
				t.Fatalf("GOCV-REPRODUCED: {{.Obligation}}: %s value %d has two names %q / %q", name, val, ename, n2)
			}
			// names that are not registered denote nothing: near misses of a registered name are rejected
			for _, variant := range []string{strings.ToLower(ename), strings.ToUpper(ename), ename + " ", " " + ename, ename[:1] + "-" + ename[1:], ename + "x"} {
				if _, registered := byName[variant]; variant == ename || registered {
					continue
				}
				if got, err := ttlv.EnumByName(tag, variant); err == nil {
					t.Fatalf("GOCV-REPRODUCED: {{.Obligation}}: %s: the unregistered name %q is accepted and denotes %d (a near miss of %q)", name, variant, got, ename)
				}
			}
		}
		for i := 0; i < 32; i++ {
			s := string(ttlv.AppendBitmaskString(nil, tag, int32(1)<<uint(i), "|"))
			if s == "" || (len(s) > 2 && s[:2] == "0x") {
				continue
			}
			got, err := ttlv.BitmaskByStr(tag, s)
			if err != nil || got != int32(1)<<uint(i) {
				t.Fatalf("GOCV-REPRODUCED: {{.Obligation}}: %s flag %d is written as %q which is read back as %d (err %v)", name, i, s, got, err)
			}
			for _, variant := range []string{strings.ToLower(s), strings.ToUpper(s), s[:1] + "-" + s[1:], s + "x"} {
				if variant == s {
					continue
				}
				if got, err := ttlv.BitmaskByStr(tag, variant); err == nil && got != 0 {
					t.Fatalf("GOCV-REPRODUCED: {{.Obligation}}: %s: the unregistered flag name %q is accepted and denotes %d (a near miss of %q)", name, variant, got, s)
				}
			}
		}
	}
}
`}
	replayers["ttlv.bytesToBigInt"] = &Replayer{PkgDir: "ttlv", Inputs: []ReplayInput{{Name: "V", Expr: "v", Kind: "bytes"}},
		Oracle: "bytesToBigInt on the model's bytes returns normally and leaves its argument unchanged",
		Template: strings.Replace(replayPrelude, "{{.Pkg}}", "ttlv", 1) + `
func TestGocvReplay(t *testing.T) {
	v := {{.V}}
	orig := append([]byte(nil), v...)
	if p := gocvCatch(func() { bytesToBigInt(v) }); p != nil {
		t.Fatalf("GOCV-REPRODUCED: {{.Obligation}}: panic: %v", p)
	}
	if !bytes.Equal(v, orig) {
		t.Fatalf("GOCV-REPRODUCED: {{.Obligation}}: argument modified: %x -> %x", orig, v)
	}
}
`}
}

const c05Head = `package kmip_test

import (
	"bytes"
	"math/big"
	"reflect"
	"testing"
	"time"

	"github.com/ovh/kmip-go"
	"github.com/ovh/kmip-go/payloads"
	"github.com/ovh/kmip-go/ttlv"
)

var _ = payloads.GetRequestPayload{}
var _ = big.NewInt
var _ = time.Now

type gocvWrap struct {
	ProtocolVersion kmip.ProtocolVersion ` + "`" + `ttlv:",set-version"` + "`" + `
	Body            any                  ` + "`" + `ttlv:"RequestPayload"` + "`" + `
}

func gocvPopulate(v reflect.Value) bool {
	switch v.Kind() {
	case reflect.Bool:
		v.SetBool(true)
	case reflect.Int8, reflect.Int16, reflect.Int32, reflect.Int64, reflect.Int:
		v.SetInt(1)
	case reflect.Uint8, reflect.Uint16, reflect.Uint32, reflect.Uint64:
		v.SetUint(1)
	case reflect.String:
		v.SetString("x")
	case reflect.Slice:
		if v.Type().Elem().Kind() == reflect.Uint8 {
			v.SetBytes([]byte{1})
			return true
		}
		el := reflect.New(v.Type().Elem()).Elem()
		gocvPopulate(el)
		v.Set(reflect.Append(v, el))
	case reflect.Pointer:
		p := reflect.New(v.Type().Elem())
		gocvPopulate(p.Elem())
		v.Set(p)
	case reflect.Struct:
		if v.Type() == reflect.TypeOf(time.Time{}) {
			v.Set(reflect.ValueOf(time.Unix(1000, 0)))
			return true
		}
		if v.Type() == reflect.TypeOf(big.Int{}) {
			v.Set(reflect.ValueOf(*big.NewInt(5)))
			return true
		}
		for i := 0; i < v.NumField(); i++ {
			if v.Type().Field(i).IsExported() {
				gocvPopulate(v.Field(i))
			}
		}
	default:
		return false
	}
	return true
}

func TestGocvReplay(t *testing.T) {
	fields := []struct {
		ptr          any
		field        string
		major, minor int32
	}{
`

const c05Tail = `
	}
	enc := func(v kmip.ProtocolVersion, body any) (out []byte) {
		defer func() {
			if p := recover(); p != nil {
				t.Logf("encoder panic: %v", p)
				out = []byte("panic")
			}
		}()
		e := ttlv.NewTTLVEncoder()
		e.TagAny(kmip.TagRequestMessage, &gocvWrap{ProtocolVersion: v, Body: body})
		return append([]byte{}, e.Bytes()...)
	}
	for _, f := range fields {
		ty := reflect.TypeOf(f.ptr).Elem()
		for _, v := range []kmip.ProtocolVersion{kmip.V1_0, kmip.V1_1, kmip.V1_2, kmip.V1_3, kmip.V1_4} {
			empty := reflect.New(ty)
			full := reflect.New(ty)
			for _, x := range []reflect.Value{empty, full} {
				// headers carry the version themselves
				if pv := x.Elem().FieldByName("ProtocolVersion"); pv.IsValid() && pv.Type() == reflect.TypeOf(v) {
					pv.Set(reflect.ValueOf(v))
				}
			}
			if !gocvPopulate(full.Elem().FieldByName(f.field)) {
				t.Logf("skip %s.%s: cannot populate", ty, f.field)
				continue
			}
			a, b := enc(v, empty.Interface()), enc(v, full.Interface())
			if string(a) == "panic" || string(b) == "panic" {
				t.Logf("skip %s.%s: encoder panics on the synthetic value", ty, f.field)
				continue
			}
			present := !bytes.Equal(a, b)
			want := v.ProtocolVersionMajor > f.major || v.ProtocolVersionMajor == f.major && v.ProtocolVersionMinor >= f.minor
			if present != want {
				t.Fatalf("GOCV-REPRODUCED: {{.Obligation}}: %s.%s (introduced in %d.%d) populated and encoded at %d.%d: present=%v, want %v", ty, f.field, f.major, f.minor, v.ProtocolVersionMajor, v.ProtocolVersionMinor, present, want)
			}
		}
	}
	// whole messages through the real headers, requests and responses, with items whose payloads contain protocol
	// versions of their own (Discover Versions) before the gated item: the version of the header alone decides
	ge := func(v kmip.ProtocolVersion, major, minor int32) bool {
		return v.ProtocolVersionMajor > major || v.ProtocolVersionMajor == major && v.ProtocolVersionMinor >= minor
	}
	lists := [][]kmip.ProtocolVersion{nil, {kmip.V1_0}, {kmip.V1_4}, {kmip.V1_0, kmip.V1_4}, {kmip.V1_4, kmip.V1_0}}
	for _, v := range []kmip.ProtocolVersion{kmip.V1_0, kmip.V1_1, kmip.V1_2, kmip.V1_3, kmip.V1_4} {
		for li, list := range lists {
			req := &kmip.RequestMessage{Header: kmip.RequestHeader{ProtocolVersion: v, ClientCorrelationValue: "c", BatchCount: 1}}
			if list != nil {
				req.BatchItem = append(req.BatchItem, kmip.RequestBatchItem{Operation: kmip.OperationDiscoverVersions, RequestPayload: &payloads.DiscoverVersionsRequestPayload{ProtocolVersion: list}})
				req.Header.BatchCount = 2
			}
			req.BatchItem = append(req.BatchItem, kmip.RequestBatchItem{Operation: kmip.OperationLocate, RequestPayload: &payloads.LocateRequestPayload{MaximumItems: 3, OffsetItems: 5}})
			var req2 kmip.RequestMessage
			if err := ttlv.UnmarshalTTLV(ttlv.MarshalTTLV(req), &req2); err != nil {
				t.Fatalf("GOCV-REPRODUCED: {{.Obligation}}: request at %d.%d (list %d) does not decode: %v", v.ProtocolVersionMajor, v.ProtocolVersionMinor, li, err)
			}
			loc, _ := req2.BatchItem[len(req2.BatchItem)-1].RequestPayload.(*payloads.LocateRequestPayload)
			if loc == nil || (loc.OffsetItems == 5) != ge(v, 1, 3) || loc.MaximumItems != 3 || (req2.Header.ClientCorrelationValue == "c") != ge(v, 1, 4) {
				t.Fatalf("GOCV-REPRODUCED: {{.Obligation}}: request at %d.%d with a Discover Versions item listing %v: Offset Items (1.3) present=%v, Client Correlation Value (1.4) present=%v", v.ProtocolVersionMajor, v.ProtocolVersionMinor, list, loc != nil && loc.OffsetItems == 5, req2.Header.ClientCorrelationValue == "c")
			}
			n := int32(7)
			resp := &kmip.ResponseMessage{Header: kmip.ResponseHeader{ProtocolVersion: v, TimeStamp: time.Unix(1000, 0), ServerCorrelationValue: "s", BatchCount: 1}}
			if list != nil {
				resp.BatchItem = append(resp.BatchItem, kmip.ResponseBatchItem{Operation: kmip.OperationDiscoverVersions, ResponsePayload: &payloads.DiscoverVersionsResponsePayload{ProtocolVersion: list}})
				resp.Header.BatchCount = 2
			}
			resp.BatchItem = append(resp.BatchItem, kmip.ResponseBatchItem{Operation: kmip.OperationLocate, ResponsePayload: &payloads.LocateResponsePayload{LocatedItems: &n, UniqueIdentifier: []string{"a"}}})
			var resp2 kmip.ResponseMessage
			if err := ttlv.UnmarshalTTLV(ttlv.MarshalTTLV(resp), &resp2); err != nil {
				t.Fatalf("GOCV-REPRODUCED: {{.Obligation}}: response at %d.%d (list %d) does not decode: %v", v.ProtocolVersionMajor, v.ProtocolVersionMinor, li, err)
			}
			rl, _ := resp2.BatchItem[len(resp2.BatchItem)-1].ResponsePayload.(*payloads.LocateResponsePayload)
			if rl == nil || (rl.LocatedItems != nil) != ge(v, 1, 3) || len(rl.UniqueIdentifier) != 1 || (resp2.Header.ServerCorrelationValue == "s") != ge(v, 1, 4) {
				t.Fatalf("GOCV-REPRODUCED: {{.Obligation}}: response at %d.%d with a Discover Versions item listing %v: Located Items (1.3) present=%v, Server Correlation Value (1.4) present=%v", v.ProtocolVersionMajor, v.ProtocolVersionMinor, list, rl != nil && rl.LocatedItems != nil, resp2.Header.ServerCorrelationValue == "s")
			}
		}
	}
}
`
