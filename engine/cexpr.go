package main

// Evaluator for contract expressions (Go expression syntax + old, ==>, forall, sequence predicates).

import (
	"fmt"
	"go/ast"
	"go/parser"
	"go/constant"
	"go/printer"
	"go/token"
	"go/types"
	"math/big"
	"strconv"
	"strings"
)

type CEnv struct {
	x           *Exec
	st          *State
	old         *State
	vars        map[string]Val
	pkg         *types.Package
	fr          *Frame
	entryAllocW *Term
	loopEntry   *State
}

var untypedInt = types.Typ[types.UntypedInt]
var boolT = types.Typ[types.Bool]
var intT = types.Typ[types.Int]

func isUntyped(v Val) bool {
	b, ok := v.T.(*types.Basic)
	return ok && b.Info()&types.IsUntyped != 0
}

func (ce *CEnv) with(vars map[string]Val) *CEnv {
	n := *ce
	n.vars = vars
	return &n
}

func (ce *CEnv) evalBool(c *Clause) (t *Term, err error) {
	defer func() {
		if r := recover(); r != nil {
			err = fmt.Errorf("%v", r)
		}
	}()
	v, err := ce.eval(c.Expr)
	if err != nil {
		return nil, err
	}
	if len(v.C) != 1 || v.C[0].Sort != BoolSort {
		return nil, fmt.Errorf("clause is not boolean: %s", c.Text)
	}
	return v.C[0], nil
}

func bval(t *Term) Val { return Val{T: boolT, C: []*Term{t}} }

func (ce *CEnv) resolveType(e ast.Expr) (types.Type, error) {
	switch t := e.(type) {
	case *ast.Ident:
		if o := types.Universe.Lookup(t.Name); o != nil {
			if tn, ok := o.(*types.TypeName); ok {
				return tn.Type(), nil
			}
		}
		if ce.pkg != nil {
			if o := ce.pkg.Scope().Lookup(t.Name); o != nil {
				if tn, ok := o.(*types.TypeName); ok {
					return tn.Type(), nil
				}
			}
		}
		return nil, fmt.Errorf("unknown type %s", t.Name)
	case *ast.SelectorExpr:
		if id, ok := t.X.(*ast.Ident); ok {
			if p := ce.importedPkg(id.Name); p != nil {
				if o := p.Scope().Lookup(t.Sel.Name); o != nil {
					if tn, ok := o.(*types.TypeName); ok {
						return tn.Type(), nil
					}
				}
			}
		}
	case *ast.StarExpr:
		el, err := ce.resolveType(t.X)
		if err != nil {
			return nil, err
		}
		return types.NewPointer(el), nil
	case *ast.ArrayType:
		el, err := ce.resolveType(t.Elt)
		if err != nil {
			return nil, err
		}
		if t.Len == nil {
			return types.NewSlice(el), nil
		}
	case *ast.ParenExpr:
		return ce.resolveType(t.X)
	case *ast.InterfaceType:
		return types.NewInterfaceType(nil, nil), nil
	}
	return nil, fmt.Errorf("unsupported type expression %T", e)
}

func (ce *CEnv) importedPkg(name string) *types.Package {
	if ce.pkg == nil {
		return nil
	}
	if ce.pkg.Name() == name {
		return ce.pkg
	}
	for _, p := range ce.pkg.Imports() {
		if p.Name() == name {
			return p
		}
	}
	// transitive search (contracts may name packages the file does not import directly)
	seen := map[*types.Package]bool{}
	var rec func(p *types.Package) *types.Package
	rec = func(p *types.Package) *types.Package {
		if seen[p] {
			return nil
		}
		seen[p] = true
		for _, q := range p.Imports() {
			if q.Name() == name {
				return q
			}
			if r := rec(q); r != nil {
				return r
			}
		}
		return nil
	}
	return rec(ce.pkg)
}

func constToVal(c *types.Const) (Val, error) {
	t := c.Type()
	switch u := t.Underlying().(type) {
	case *types.Basic:
		switch {
		case u.Info()&types.IsBoolean != 0:
			return bval(BoolT(constant.BoolVal(c.Val()))), nil
		case u.Info()&types.IsInteger != 0:
			bi, ok := constantBig(c.Val())
			if !ok {
				return Val{}, fmt.Errorf("constant %s out of range", c.Name())
			}
			if u.Info()&types.IsUntyped != 0 {
				return Val{T: untypedInt, C: []*Term{BVConstBig(bi, 64)}}, nil
			}
			w, _, _ := intWidth(u)
			return Val{T: t, C: []*Term{BVConstBig(bi, w)}}, nil
		case u.Info()&types.IsString != 0:
			return strVal(t, constant.StringVal(c.Val())), nil
		}
	}
	return Val{}, fmt.Errorf("unsupported constant %s", c.Name())
}

func (ce *CEnv) lookupIdent(name string) (Val, error) {
	// an address-taken variable lives in its cell: the cell's current content is authoritative
	if p, ok := ce.vars["&"+name]; ok {
		return ce.x.loadWF(ce.st, derefPtr(p)), nil
	}
	if v, ok := ce.vars[name]; ok {
		return v, nil
	}
	if g, ok := ce.st.ghost[name]; ok {
		return g, nil
	}
	switch name {
	case "true":
		return bval(True), nil
	case "false":
		return bval(False), nil
	case "nil":
		return Val{T: types.Typ[types.UntypedNil], C: []*Term{IntConst(0)}}, nil
	}
	if ce.pkg != nil {
		if o := ce.pkg.Scope().Lookup(name); o != nil {
			switch ob := o.(type) {
			case *types.Const:
				return constToVal(ob)
			case *types.Var:
				return ce.globalVar(ob)
			}
		}
	}
	return Val{}, fmt.Errorf("unknown identifier %s", name)
}

func (ce *CEnv) globalVar(v *types.Var) (Val, error) {
	pkg := ce.x.prog.Package(v.Pkg())
	if pkg == nil {
		return Val{}, fmt.Errorf("no ssa package for %s", v.Pkg().Path())
	}
	g, ok := pkg.Members[v.Name()]
	if !ok {
		return Val{}, fmt.Errorf("no global %s", v.Name())
	}
	gl := g.(interface{ Type() types.Type })
	_ = gl
	sg := pkg.Var(v.Name())
	if sg == nil {
		return Val{}, fmt.Errorf("no global var %s", v.Name())
	}
	p := Val{T: sg.Type(), C: []*Term{ce.x.globalRef(sg)}}
	return ce.x.loadGlobal(ce.st, sg, derefPtr(p)), nil
}

func (ce *CEnv) eval(e ast.Expr) (Val, error) {
	switch n := e.(type) {
	case *ast.ParenExpr:
		return ce.eval(n.X)
	case *ast.Ident:
		return ce.lookupIdent(n.Name)
	case *ast.BasicLit:
		switch n.Kind {
		case token.INT:
			bi, ok := new(big.Int).SetString(strings.ReplaceAll(n.Value, "_", ""), 0)
			if !ok {
				return Val{}, fmt.Errorf("bad int literal %s", n.Value)
			}
			return Val{T: untypedInt, C: []*Term{BVConstBig(bi, 64)}}, nil
		case token.CHAR:
			r, _, _, err := strconv.UnquoteChar(n.Value[1:len(n.Value)-1], '\'')
			if err != nil {
				return Val{}, err
			}
			return Val{T: untypedInt, C: []*Term{BVConst(int64(r), 64)}}, nil
		case token.STRING:
			s, err := strconv.Unquote(n.Value)
			if err != nil {
				return Val{}, err
			}
			return strVal(types.Typ[types.String], s), nil
		}
		return Val{}, fmt.Errorf("unsupported literal %s", n.Value)
	case *ast.SelectorExpr:
		return ce.evalSelector(n)
	case *ast.IndexExpr:
		return ce.evalIndex(n)
	case *ast.SliceExpr:
		return ce.evalSlice(n)
	case *ast.StarExpr:
		p, err := ce.eval(n.X)
		if err != nil {
			return Val{}, err
		}
		return ce.x.loadWF(ce.st, derefPtr(p)), nil
	case *ast.UnaryExpr:
		if n.Op == token.AND {
			lv, err := ce.lvalue(n.X)
			if err != nil {
				return Val{}, err
			}
			return ptrTo(lv), nil
		}
		a, err := ce.eval(n.X)
		if err != nil {
			return Val{}, err
		}
		switch n.Op {
		case token.NOT:
			return bval(Not(a.C[0])), nil
		case token.SUB:
			return Val{T: a.T, C: []*Term{BVNeg(a.C[0])}}, nil
		case token.XOR:
			return Val{T: a.T, C: []*Term{BVNot(a.C[0])}}, nil
		case token.ADD:
			return a, nil
		}
	case *ast.BinaryExpr:
		return ce.evalBinary(n)
	case *ast.CallExpr:
		return ce.evalCall(n)
	}
	return Val{}, fmt.Errorf("unsupported expression %T", e)
}

// derefStruct follows pointers until a struct value/l-value is reached.
func (ce *CEnv) structLV(v Val) (*LVal, Val, bool) {
	if _, ok := v.T.Underlying().(*types.Pointer); ok {
		return derefPtr(v), Val{}, true
	}
	return nil, v, false
}

func (ce *CEnv) evalSelector(n *ast.SelectorExpr) (Val, error) {
	if id, ok := n.X.(*ast.Ident); ok {
		if _, isVar := ce.vars[id.Name]; !isVar {
			if _, isCell := ce.vars["&"+id.Name]; !isCell {
				if p := ce.importedPkg(id.Name); p != nil {
					o := p.Scope().Lookup(n.Sel.Name)
					switch ob := o.(type) {
					case *types.Const:
						return constToVal(ob)
					case *types.Var:
						return ce.globalVar(ob)
					}
					return Val{}, fmt.Errorf("unknown %s.%s", id.Name, n.Sel.Name)
				}
			}
		}
	}
	base, err := ce.eval(n.X)
	if err != nil {
		return Val{}, err
	}
	return ce.selectField(base, n.Sel.Name)
}

func (ce *CEnv) selectField(base Val, name string) (Val, error) {
	obj, index, _ := types.LookupFieldOrMethod(base.T, true, ce.pkgFor(base.T), name)
	if obj == nil {
		return Val{}, fmt.Errorf("no field %s in %s", name, typeKey(base.T))
	}
	if _, ok := obj.(*types.Var); !ok {
		return Val{}, fmt.Errorf("%s is not a field of %s", name, typeKey(base.T))
	}
	cur := base
	for k, fi := range index {
		last := k == len(index)-1
		if _, isPtr := cur.T.Underlying().(*types.Pointer); isPtr {
			lv := derefPtr(cur)
			stt, ok := lv.T.Underlying().(*types.Struct)
			if !ok {
				return Val{}, fmt.Errorf("cannot select %s in %s", name, typeKey(cur.T))
			}
			f := stt.Field(fi)
			nl := &LVal{Prefix: lv.Prefix, Ref: lv.Ref, Idx: lv.Idx, Path: lv.Path + "." + f.Name(), T: f.Type()}
			if _, isStruct := f.Type().Underlying().(*types.Struct); isStruct && !last {
				cur = Val{T: types.NewPointer(f.Type()), C: []*Term{lv.Ref}, LV: nl}
				continue
			}
			cur = ce.x.reattachInterior(ce.st, ce.x.loadWF(ce.st, nl))
			continue
		}
		if _, isStruct := cur.T.Underlying().(*types.Struct); isStruct {
			cur = fieldVal(cur, fi)
			continue
		}
		return Val{}, fmt.Errorf("cannot select %s in %s", name, typeKey(cur.T))
	}
	return cur, nil
}

func isPointerType(t types.Type) bool {
	_, ok := t.Underlying().(*types.Pointer)
	return ok
}

func (ce *CEnv) pkgFor(t types.Type) *types.Package {
	for {
		if p, ok := t.Underlying().(*types.Pointer); ok && t == t.Underlying() {
			t = p.Elem()
			continue
		}
		break
	}
	if p, ok := t.(*types.Pointer); ok {
		t = p.Elem()
	}
	if n, ok := t.(*types.Named); ok && n.Obj().Pkg() != nil {
		return n.Obj().Pkg()
	}
	return ce.pkg
}

func (ce *CEnv) toIdx(v Val) *Term {
	if isUntyped(v) {
		return v.C[0]
	}
	return toBV64(v.C[0], v.T)
}

func (ce *CEnv) evalIndex(n *ast.IndexExpr) (Val, error) {
	base, err := ce.eval(n.X)
	if err != nil {
		return Val{}, err
	}
	iv, err := ce.eval(n.Index)
	if err != nil {
		return Val{}, err
	}
	idx := ce.toIdx(iv)
	switch u := base.T.Underlying().(type) {
	case *types.Slice:
		if base.CS != nil {
			return ce.x.loadWF(base.CS, elemLVal(base, idx)), nil
		}
		return ce.x.loadWF(ce.st, elemLVal(base, idx)), nil
	case *types.Array:
		out := Val{T: u.Elem()}
		for _, c := range base.C {
			out.C = append(out.C, Select(c, idx))
		}
		return out, nil
	case *types.Basic:
		if u.Info()&types.IsString != 0 {
			return Val{T: types.Typ[types.Uint8], C: []*Term{sbyte(base.C[0], idx)}}, nil
		}
	}
	return Val{}, fmt.Errorf("cannot index %s", typeKey(base.T))
}

func (ce *CEnv) evalSlice(n *ast.SliceExpr) (Val, error) {
	base, err := ce.eval(n.X)
	if err != nil {
		return Val{}, err
	}
	if _, ok := base.T.Underlying().(*types.Slice); !ok {
		return Val{}, fmt.Errorf("slice expression on %s", typeKey(base.T))
	}
	lo := bv64(0)
	hi := base.Len()
	if n.Low != nil {
		v, err := ce.eval(n.Low)
		if err != nil {
			return Val{}, err
		}
		lo = ce.toIdx(v)
	}
	if n.High != nil {
		v, err := ce.eval(n.High)
		if err != nil {
			return Val{}, err
		}
		hi = ce.toIdx(v)
	}
	r := mkSlice(base.T, base.Arr(), BVBin("bvadd", base.Off(), lo), BVBin("bvsub", hi, lo), BVBin("bvsub", base.Cap(), lo))
	r.CS = base.CS
	return r, nil
}

// lvalue evaluates an addressable contract expression to an address.
func (ce *CEnv) lvalue(e ast.Expr) (*LVal, error) {
	switch n := e.(type) {
	case *ast.ParenExpr:
		return ce.lvalue(n.X)
	case *ast.StarExpr:
		p, err := ce.eval(n.X)
		if err != nil {
			return nil, err
		}
		return derefPtr(p), nil
	case *ast.Ident:
		if p, ok := ce.vars["&"+n.Name]; ok {
			return derefPtr(p), nil
		}
		return nil, fmt.Errorf("%s is not addressable", n.Name)
	case *ast.SelectorExpr:
		var blv *LVal
		base, err := ce.eval(n.X)
		if err != nil {
			return nil, err
		}
		if _, ok := base.T.Underlying().(*types.Pointer); ok {
			blv = derefPtr(base)
		} else {
			blv, err = ce.lvalue(n.X)
			if err != nil {
				return nil, err
			}
		}
		stt, ok := blv.T.Underlying().(*types.Struct)
		if !ok {
			return nil, fmt.Errorf("selector on non-struct %s", typeKey(blv.T))
		}
		for i := 0; i < stt.NumFields(); i++ {
			if stt.Field(i).Name() == n.Sel.Name {
				return &LVal{Prefix: blv.Prefix, Ref: blv.Ref, Idx: blv.Idx, Path: blv.Path + "." + n.Sel.Name, T: stt.Field(i).Type()}, nil
			}
		}
		return nil, fmt.Errorf("no field %s", n.Sel.Name)
	case *ast.IndexExpr:
		base, err := ce.eval(n.X)
		if err != nil {
			return nil, err
		}
		iv, err := ce.eval(n.Index)
		if err != nil {
			return nil, err
		}
		if _, ok := base.T.Underlying().(*types.Slice); ok {
			return elemLVal(base, ce.toIdx(iv)), nil
		}
	}
	return nil, fmt.Errorf("unsupported l-value %T", e)
}

type location struct {
	lv         *LVal
	wholeArray bool
	key        string
	ref        *Term
	sort       *Sort
}

func (ce *CEnv) evalLocations(m *Clause, pre *State) ([]location, error) {
	c2 := *ce
	c2.st = pre
	if call, ok := m.Expr.(*ast.CallExpr); ok {
		if id, ok := call.Fun.(*ast.Ident); ok && id.Name == "elems" && len(call.Args) == 1 {
			s, err := c2.eval(call.Args[0])
			if err != nil {
				return nil, err
			}
			var out []location
			names, sorts := elemMaps(pre, s.T)
			for i, n := range names {
				out = append(out, location{wholeArray: true, key: n, ref: s.Arr(), sort: ArraySort(IntSort, ArraySort(BV64, sorts[i]))})
			}
			return out, nil
		}
	}
	lv, err := c2.lvalue(m.Expr)
	if err != nil {
		return nil, err
	}
	return []location{{lv: lv}}, nil
}

func (ce *CEnv) ghostUpdate(g *Clause) error {
	v, err := ce.eval(g.Expr)
	if err != nil {
		return err
	}
	cur, ok := ce.st.ghost[g.Text]
	if !ok {
		return fmt.Errorf("unknown ghost variable %s", g.Text)
	}
	if isUntyped(v) {
		v = convertConst(v, cur.T)
	}
	v.T = cur.T
	ce.st.ghost[g.Text] = v
	return nil
}

func convertConst(v Val, to types.Type) Val {
	if w, _, ok := isIntType(to); ok {
		if v.C[0].Op != "bvconst" {
			return Val{T: to, C: []*Term{SignExt(v.C[0], w)}}
		}
		return Val{T: to, C: []*Term{BVConstBig(v.C[0].Signed(), w)}}
	}
	return v
}

func (ce *CEnv) coerce(a, b Val) (Val, Val) {
	if isUntyped(a) && !isUntyped(b) {
		if a.C[0].Sort.IsBV() {
			if _, _, ok := isIntType(b.T); ok {
				a = convertConst(a, b.T)
			}
		}
	} else if isUntyped(b) && !isUntyped(a) {
		if b.C[0].Sort.IsBV() {
			if _, _, ok := isIntType(a.T); ok {
				b = convertConst(b, a.T)
			}
		}
	}
	return a, b
}

func (ce *CEnv) evalBinary(n *ast.BinaryExpr) (Val, error) {
	a, err := ce.eval(n.X)
	if err != nil {
		return Val{}, err
	}
	b, err := ce.eval(n.Y)
	if err != nil {
		return Val{}, err
	}
	switch n.Op {
	case token.LAND:
		return bval(And(a.C[0], b.C[0])), nil
	case token.LOR:
		return bval(Or(a.C[0], b.C[0])), nil
	}
	if n.Op == token.SHL || n.Op == token.SHR {
		w, signed, ok := isIntType(a.T)
		if !ok {
			return Val{}, fmt.Errorf("shift of %s", typeKey(a.T))
		}
		cnt := b.C[0]
		if cnt.Sort.Width > w {
			cnt = Extract(w-1, 0, cnt)
		} else if cnt.Sort.Width < w {
			cnt = ZeroExt(cnt, w)
		}
		op := "bvshl"
		if n.Op == token.SHR {
			op = "bvlshr"
			if signed {
				op = "bvashr"
			}
		}
		return Val{T: a.T, C: []*Term{BVBin(op, a.C[0], cnt)}}, nil
	}
	if a.T == types.Typ[types.Invalid] || b.T == types.Typ[types.Invalid] {
		// a captured variable of an opaque function value compared with a one-component value
		op, other := a, b
		if op.T != types.Typ[types.Invalid] {
			op, other = b, a
		}
		if (n.Op == token.EQL || n.Op == token.NEQ) && other.T != types.Typ[types.Invalid] && len(other.C) == 1 && len(op.C) == 1 && op.C[0].Op == "uf" && strings.HasPrefix(op.C[0].Name, "capt!") {
			u := UF(op.C[0].Name+"!"+other.C[0].Sort.String(), other.C[0].Sort, op.C[0].Args[0])
			e := Eq(u, other.C[0])
			if n.Op == token.NEQ {
				e = Not(e)
			}
			return bval(e), nil
		}
		return bval(FreshVar("opaque", BoolSort)), nil
	}
	a, b = ce.coerce(a, b)
	// nil comparisons
	if n.Op == token.EQL || n.Op == token.NEQ {
		isNil := func(v Val) bool { bb, ok := v.T.(*types.Basic); return ok && bb.Kind() == types.UntypedNil }
		var e *Term
		switch {
		case isNil(b):
			e = Eq(a.C[0], IntConst(0))
		case isNil(a):
			e = Eq(b.C[0], IntConst(0))
		default:
			cnt := len(a.C)
			if _, ok := a.T.Underlying().(*types.Slice); ok {
				cnt = 3
			}
			if len(b.C) < cnt {
				return Val{}, fmt.Errorf("== on different shapes %s / %s", typeKey(a.T), typeKey(b.T))
			}
			var eqs []*Term
			for i := 0; i < cnt; i++ {
				if a.C[i].Sort != b.C[i].Sort {
					return Val{}, fmt.Errorf("== sort mismatch %s vs %s (%s / %s)", a.C[i].Sort, b.C[i].Sort, typeKey(a.T), typeKey(b.T))
				}
				eqs = append(eqs, Eq(a.C[i], b.C[i]))
			}
			e = And(eqs...)
		}
		if n.Op == token.NEQ {
			e = Not(e)
		}
		return bval(e), nil
	}
	if a.C[0].Sort == BoolSort {
		return Val{}, fmt.Errorf("operator %s on bool", n.Op)
	}
	if a.C[0].Sort == IntSort {
		// reference arithmetic is not meaningful; allow comparisons only
		switch n.Op {
		case token.LSS:
			return bval(IntCmp("<", a.C[0], b.C[0])), nil
		case token.GEQ:
			return bval(IntCmp(">=", a.C[0], b.C[0])), nil
		}
		return Val{}, fmt.Errorf("operator %s on references", n.Op)
	}
	if a.C[0].Sort != b.C[0].Sort {
		return Val{}, fmt.Errorf("operator %s on %s and %s", n.Op, typeKey(a.T), typeKey(b.T))
	}
	_, signed, _ := isIntType(a.T)
	if isUntyped(a) {
		signed = true
	}
	rt := a.T
	if isUntyped(a) && !isUntyped(b) {
		rt = b.T
	}
	ar := func(op string) (Val, error) { return Val{T: rt, C: []*Term{BVBin(op, a.C[0], b.C[0])}}, nil }
	switch n.Op {
	case token.ADD:
		return ar("bvadd")
	case token.SUB:
		return ar("bvsub")
	case token.MUL:
		return ar("bvmul")
	case token.QUO:
		if signed {
			return ar("bvsdiv")
		}
		return ar("bvudiv")
	case token.REM:
		if signed {
			return ar("bvsrem")
		}
		return ar("bvurem")
	case token.AND:
		return ar("bvand")
	case token.OR:
		return ar("bvor")
	case token.XOR:
		return ar("bvxor")
	case token.AND_NOT:
		return Val{T: rt, C: []*Term{BVBin("bvand", a.C[0], BVNot(b.C[0]))}}, nil
	case token.LSS, token.LEQ, token.GTR, token.GEQ:
		p := "bvu"
		if signed {
			p = "bvs"
		}
		s := map[token.Token]string{token.LSS: "lt", token.LEQ: "le", token.GTR: "gt", token.GEQ: "ge"}[n.Op]
		return bval(BVCmp(p+s, a.C[0], b.C[0])), nil
	}
	return Val{}, fmt.Errorf("unsupported operator %s", n.Op)
}

type seqView struct {
	at   func(abs *Term) *Term // element at an absolute index of the underlying array / string
	base *Term                 // absolute index of element 0
	ln   *Term
}

func (ce *CEnv) contentAt(v Val) (*seqView, error) {
	switch u := v.T.Underlying().(type) {
	case *types.Slice:
		names, sorts := elemMaps(ce.st, v.T)
		if len(names) != 1 {
			return nil, fmt.Errorf("content of %s", typeKey(v.T))
		}
		cst := ce.st
		if v.CS != nil {
			cst = v.CS
		}
		h := cst.heapMap(names[0], ArraySort(IntSort, ArraySort(BV64, sorts[0])))
		A := NameArray(Select(h, v.Arr()))
		return &seqView{at: func(j *Term) *Term { return Select(A, j) }, base: v.Off(), ln: v.Len()}, nil
	case *types.Basic:
		if u.Info()&types.IsString != 0 {
			sid := v.C[0]
			return &seqView{at: func(j *Term) *Term { return sbyte(sid, j) }, base: bv64(0), ln: slen(sid)}, nil
		}
	}
	return nil, fmt.Errorf("no content for %s", typeKey(v.T))
}

// rangeEq: forall j in [lo, lo+n): left.at(j) == right(j - lo)   (quantified over the absolute index of left)
func rangeEq(left *seqView, lo, n *Term, right func(rel *Term) *Term) *Term {
	if n.Op == "bvconst" && n.Val.IsInt64() && n.Val.Int64() <= 16 {
		var conj []*Term
		for k := int64(0); k < n.Val.Int64(); k++ {
			conj = append(conj, Eq(left.at(BVBin("bvadd", lo, bv64(k))), right(bv64(k))))
		}
		return And(conj...)
	}
	qcount++
	j := BoundVar(fmt.Sprintf("j!q%d", qcount), BV64)
	body := Implies(And(BVCmp("bvsle", lo, j), BVCmp("bvslt", j, BVBin("bvadd", lo, n))), Eq(left.at(j), right(BVBin("bvsub", j, lo))))
	return Forall([]*Term{j}, body, []*Term{left.at(j)})
}

var qcount int

func (ce *CEnv) evalCall(n *ast.CallExpr) (Val, error) {
	// conversions and special forms
	if id, ok := n.Fun.(*ast.Ident); ok {
		switch id.Name {
		case "old":
			c2 := *ce
			c2.st = ce.old
			v, err := c2.eval(n.Args[0])
			if err == nil {
				if _, ok := v.T.Underlying().(*types.Slice); ok && v.CS == nil {
					v.CS = ce.old
				}
			}
			return v, err
		case "atloop":
			if ce.loopEntry == nil {
				return Val{}, fmt.Errorf("atloop outside of a loop clause")
			}
			c2 := *ce
			c2.st = ce.loopEntry
			return c2.eval(n.Args[0])
		case "__imp", "__iff":
			a, err := ce.eval(n.Args[0])
			if err != nil {
				return Val{}, err
			}
			b, err := ce.eval(n.Args[1])
			if err != nil {
				return Val{}, err
			}
			if id.Name == "__imp" {
				return bval(Implies(a.C[0], b.C[0])), nil
			}
			return bval(Eq(a.C[0], b.C[0])), nil
		case "__forall", "__exists":
			return ce.evalQuant(id.Name == "__forall", n.Args[0].(*ast.FuncLit))
		case "ite":
			c, err := ce.eval(n.Args[0])
			if err != nil {
				return Val{}, err
			}
			a, err := ce.eval(n.Args[1])
			if err != nil {
				return Val{}, err
			}
			b, err := ce.eval(n.Args[2])
			if err != nil {
				return Val{}, err
			}
			a, b = ce.coerce(a, b)
			out := Val{T: a.T}
			if isUntyped(a) {
				out.T = b.T
			}
			for i := range a.C {
				out.C = append(out.C, Ite(c.C[0], a.C[i], b.C[i]))
			}
			return out, nil
		case "len", "cap":
			a, err := ce.eval(n.Args[0])
			if err != nil {
				return Val{}, err
			}
			switch u := a.T.Underlying().(type) {
			case *types.Slice:
				if id.Name == "len" {
					return Val{T: intT, C: []*Term{a.Len()}}, nil
				}
				return Val{T: intT, C: []*Term{a.Cap()}}, nil
			case *types.Basic:
				return Val{T: intT, C: []*Term{slen(a.C[0])}}, nil
			case *types.Array:
				return Val{T: intT, C: []*Term{bv64(u.Len())}}, nil
			}
			return Val{}, fmt.Errorf("len of %s", typeKey(a.T))
		case "bytes_eq":
			a, err := ce.eval(n.Args[0])
			if err != nil {
				return Val{}, err
			}
			b, err := ce.eval(n.Args[1])
			if err != nil {
				return Val{}, err
			}
			va, err := ce.contentAt(a)
			if err != nil {
				return Val{}, err
			}
			vb, err := ce.contentAt(b)
			if err != nil {
				return Val{}, err
			}
			return bval(And(Eq(va.ln, vb.ln), rangeEq(va, va.base, va.ln, func(rel *Term) *Term { return vb.at(BVBin("bvadd", vb.base, rel)) }))), nil
		case "is_cat":
			return ce.evalIsCat(n)
		case "isnew":
			a, err := ce.eval(n.Args[0])
			if err != nil {
				return Val{}, err
			}
			return bval(IntCmp("<", a.C[0], ce.entryAllocW)), nil
		case "isnewloop":
			a, err := ce.eval(n.Args[0])
			if err != nil {
				return Val{}, err
			}
			if ce.loopEntry == nil {
				return Val{}, fmt.Errorf("isnewloop outside of a loop clause")
			}
			return bval(IntCmp("<", a.C[0], ce.loopEntry.allocW)), nil
		case "mapget", "mapok":
			m, err := ce.eval(n.Args[0])
			if err != nil {
				return Val{}, err
			}
			kv, err := ce.eval(n.Args[1])
			if err != nil {
				return Val{}, err
			}
			mt, ok := m.T.Underlying().(*types.Map)
			if !ok || len(kv.C) != 1 {
				return Val{}, fmt.Errorf("%s: unsupported map/key", id.Name)
			}
			if isUntyped(kv) {
				kv = convertConst(kv, mt.Key())
			}
			if id.Name == "mapok" {
				return bval(UF("map."+typeKey(mt)+".ok", BoolSort, m.C[0], kv.C[0])), nil
			}
			out := Val{T: mt.Elem()}
			for _, c := range layoutOf(mt.Elem()) {
				out.C = append(out.C, UF("map."+typeKey(mt)+c.Path, c.Sort, m.C[0], kv.C[0]))
			}
			return out, nil
		case "ifn":
			// ifn("iface pkg.Type.Method", recv, args...): the result of a contract declared `functional`
			lit, ok := n.Args[0].(*ast.BasicLit)
			if !ok {
				return Val{}, fmt.Errorf("ifn: first argument must be a string literal")
			}
			name, _ := strconv.Unquote(lit.Value)
			var in []*Term
			for _, a := range n.Args[1:] {
				v, err := ce.eval(a)
				if err != nil {
					return Val{}, err
				}
				in = append(in, v.C...)
			}
			// result type: that of the named interface method when it can be resolved (default int)
			rt, rs := types.Type(intT), BV64
			if parts := strings.Split(strings.TrimPrefix(name, "iface "), "."); len(parts) >= 2 {
				tname := strings.Join(parts[:len(parts)-1], ".")
				if te, perr := parser.ParseExpr(tname); perr == nil {
					if it, rerr := ce.resolveType(te); rerr == nil {
						if obj, _, _ := types.LookupFieldOrMethod(it, true, ce.pkg, parts[len(parts)-1]); obj != nil {
							if fn, ok := obj.(*types.Func); ok {
								if sig, ok := fn.Type().(*types.Signature); ok && sig.Results().Len() == 1 {
									if lay := layoutOf(sig.Results().At(0).Type()); len(lay) == 1 {
										rt, rs = sig.Results().At(0).Type(), lay[0].Sort
									}
								}
							}
						}
					}
				}
			}
			return Val{T: rt, C: []*Term{UF("fn."+name, rs, in...)}}, nil
		case "isenc":
			a, err := ce.eval(n.Args[0])
			if err != nil {
				return Val{}, err
			}
			return bval(UF("ttlv.iserrencoding", BoolSort, a.C[0], a.C[1])), nil
		case "erris":
			a, err := ce.eval(n.Args[0])
			if err != nil {
				return Val{}, err
			}
			b, err := ce.eval(n.Args[1])
			if err != nil {
				return Val{}, err
			}
			return bval(errIs(a, b)), nil
		case "contains":
			a, err := ce.eval(n.Args[0])
			if err != nil {
				return Val{}, err
			}
			b, err := ce.eval(n.Args[1])
			if err != nil {
				return Val{}, err
			}
			return bval(containsTerm(ce.st, a, b)), nil
		case "ctxvalue":
			// ctxvalue(ctx, KeyType): what ctx.Value(KeyType{}) returns (assumed contract of context)
			a, err := ce.eval(n.Args[0])
			if err != nil {
				return Val{}, err
			}
			t, err := ce.resolveType(n.Args[1])
			if err != nil {
				return Val{}, err
			}
			key := Val{C: []*Term{IntConst(int64(typeID(t))), IntConst(0)}}
			typ, val := ctxValue(a, key)
			return Val{T: types.NewInterfaceType(nil, nil), C: []*Term{typ, val}}, nil
		case "capt":
			// capt(f, "name"): the variable captured under that name by the (known) closure f
			a, err := ce.eval(n.Args[0])
			if err != nil {
				return Val{}, err
			}
			lit, ok := n.Args[1].(*ast.BasicLit)
			if !ok {
				return Val{}, fmt.Errorf("capt: second argument must be a string literal")
			}
			want, _ := strconv.Unquote(lit.Value)
			if a.C[0].Op != "intconst" {
				// opaque function value: the captured variable is an uninterpreted function of the function
				// value (its sort is fixed by what it is compared with), so that facts stated about it by one
				// contract can be used by another
				return Val{T: types.Typ[types.Invalid], C: []*Term{UF("capt!"+want, IntSort, a.C[0])}}, nil
			}
			cl, ok := ce.x.closures[int(a.C[0].Val.Int64())]
			if !ok {
				return Val{T: types.Typ[types.Invalid], C: []*Term{UF("capt!"+want, IntSort, a.C[0])}}, nil
			}
			for i, fv := range cl.Fn.FreeVars {
				if fv.Name() == want && i < len(cl.Bindings) {
					return ce.x.loadWF(ce.st, derefPtr(cl.Bindings[i])), nil
				}
			}
			return Val{}, fmt.Errorf("capt: closure %s does not capture %s", cl.Fn.Name(), want)
		case "isclosure":
			// isclosure(f, "pkg-relative function name"): f is a closure of that function
			a, err := ce.eval(n.Args[0])
			if err != nil {
				return Val{}, err
			}
			lit, ok := n.Args[1].(*ast.BasicLit)
			if !ok {
				return Val{}, fmt.Errorf("isclosure: second argument must be a string literal")
			}
			want, _ := strconv.Unquote(lit.Value)
			if a.C[0].Op == "intconst" {
				if cl, ok := ce.x.closures[int(a.C[0].Val.Int64())]; ok {
					_, nm := relName(cl.Fn)
					return bval(BoolT(nm == want)), nil
				}
			}
			return bval(UF("isclosure!"+want, BoolSort, a.C[0])), nil
		case "tape":
			a, err := ce.eval(n.Args[0])
			if err != nil {
				return Val{}, err
			}
			return Val{T: types.Typ[types.Uint8], C: []*Term{UF("tape", BV8, ce.toIdx(a))}}, nil
		case "from_tape":
			// from_tape(s, start): s[k] == tape(start+k) for every k < len(s)
			a, err := ce.eval(n.Args[0])
			if err != nil {
				return Val{}, err
			}
			st, err := ce.eval(n.Args[1])
			if err != nil {
				return Val{}, err
			}
			va, err := ce.contentAt(a)
			if err != nil {
				return Val{}, err
			}
			start := ce.toIdx(st)
			return bval(rangeEq(va, va.base, va.ln, func(rel *Term) *Term { return UF("tape", BV8, BVBin("bvadd", start, rel)) })), nil
		case "frame_outside":
			// frame_outside(s): the backing array of s is unchanged (w.r.t. the old state) outside s's range
			a, err := ce.eval(n.Args[0])
			if err != nil {
				return Val{}, err
			}
			names, sorts := elemMaps(ce.st, a.T)
			var conj []*Term
			for i, nm := range names {
				hs := ArraySort(IntSort, ArraySort(BV64, sorts[i]))
				An := NameArray(Select(ce.st.heapMap(nm, hs), a.Arr()))
				Ao := NameArray(Select(ce.old.heapMap(nm, hs), a.Arr()))
				qcount++
				j := BoundVar(fmt.Sprintf("j!f%d", qcount), BV64)
				in := And(BVCmp("bvsle", a.Off(), j), BVCmp("bvslt", j, BVBin("bvadd", a.Off(), a.Len())))
				conj = append(conj, Forall([]*Term{j}, Implies(Not(in), Eq(Select(An, j), Select(Ao, j))), []*Term{Select(An, j)}))
			}
			return bval(And(conj...)), nil
		case "arr":
			a, err := ce.eval(n.Args[0])
			if err != nil {
				return Val{}, err
			}
			return Val{T: types.Typ[types.UnsafePointer], C: []*Term{a.C[0]}}, nil
		case "off":
			a, err := ce.eval(n.Args[0])
			if err != nil {
				return Val{}, err
			}
			return Val{T: intT, C: []*Term{a.C[1]}}, nil
		case "samearr":
			a, err := ce.eval(n.Args[0])
			if err != nil {
				return Val{}, err
			}
			b, err := ce.eval(n.Args[1])
			if err != nil {
				return Val{}, err
			}
			return bval(And(Eq(a.C[0], b.C[0]), Eq(a.C[1], b.C[1]))), nil
		case "typeis":
			a, err := ce.eval(n.Args[0])
			if err != nil {
				return Val{}, err
			}
			t, err := ce.resolveType(n.Args[1])
			if err != nil {
				return Val{}, err
			}
			return bval(Eq(a.C[0], IntConst(int64(typeID(t))))), nil
		case "dyn":
			a, err := ce.eval(n.Args[0])
			if err != nil {
				return Val{}, err
			}
			t, err := ce.resolveType(n.Args[1])
			if err != nil {
				return Val{}, err
			}
			return ce.x.unbox(ce.st, a, t), nil
		case "unix":
			a, err := ce.eval(n.Args[0])
			if err != nil {
				return Val{}, err
			}
			return Val{T: types.Typ[types.Int64], C: []*Term{timeUnix(a)}}, nil
		case "bigsign":
			a, err := ce.eval(n.Args[0])
			if err != nil {
				return Val{}, err
			}
			return Val{T: intT, C: []*Term{bigSign(ce.st, a.C[0])}}, nil
		case "curvebytes":
			// byte length of the group order of an elliptic.Curve value (uninterpreted; tied to
			// Curve.Params().N by the assumed contract of that method)
			a, err := ce.eval(n.Args[0])
			if err != nil {
				return Val{}, err
			}
			if len(a.C) != 2 {
				return Val{}, fmt.Errorf("curvebytes of a non-interface value")
			}
			return Val{T: intT, C: []*Term{UF("curvebytes", BV64, a.C[0], a.C[1])}}, nil
		case "bigmag":
			a, err := ce.eval(n.Args[0])
			if err != nil {
				return Val{}, err
			}
			return Val{T: types.Typ[types.String], C: []*Term{bigMag(ce.st, a.C[0])}}, nil
		}
		// spec function
		if sf := ce.x.cs.lookupSpec(ce.pkg, id.Name); sf != nil {
			return ce.callSpec(sf, n.Args)
		}
		// conversion to a named/basic type
		if t, err := ce.resolveType(n.Fun); err == nil && len(n.Args) == 1 {
			return ce.convertTo(t, n.Args[0])
		}
		return Val{}, fmt.Errorf("unknown function %s", id.Name)
	}
	if t, err := ce.resolveType(n.Fun); err == nil && len(n.Args) == 1 {
		return ce.convertTo(t, n.Args[0])
	}
	return Val{}, fmt.Errorf("unsupported call %T", n.Fun)
}

func (ce *CEnv) convertTo(t types.Type, arg ast.Expr) (Val, error) {
	a, err := ce.eval(arg)
	if err != nil {
		return Val{}, err
	}
	wt, _, okt := isIntType(t)
	if okt && a.C[0].Sort.IsBV() {
		wf := a.C[0].Sort.Width
		_, sf, _ := isIntType(a.T)
		if isUntyped(a) {
			return Val{T: t, C: []*Term{BVConstBig(a.C[0].Signed(), wt)}}, nil
		}
		x := a.C[0]
		switch {
		case wt < wf:
			x = Extract(wt-1, 0, x)
		case wt > wf && sf:
			x = SignExt(x, wt)
		case wt > wf:
			x = ZeroExt(x, wt)
		}
		return Val{T: t, C: []*Term{x}}, nil
	}
	if len(layoutOf(t)) == len(a.C) {
		return Val{T: t, C: a.C, LV: a.LV}, nil
	}
	return Val{}, fmt.Errorf("unsupported conversion to %s", typeKey(t))
}

func (cs *ContractSet) lookupSpec(pkg *types.Package, name string) *SpecFn {
	if pkg != nil {
		if sf, ok := cs.specs[pkg.Path()+"."+name]; ok {
			return sf
		}
	}
	return cs.specs[name]
}

func (ce *CEnv) callSpec(sf *SpecFn, args []ast.Expr) (Val, error) {
	if len(args) != len(sf.Params) {
		return Val{}, fmt.Errorf("spec %s: %d args for %d params", sf.Name, len(args), len(sf.Params))
	}
	vars := map[string]Val{}
	// bound variables of enclosing quantifiers stay visible
	for k, v := range ce.vars {
		if strings.HasPrefix(k, "$b.") {
			vars[k] = v
		}
	}
	sce := *ce
	sce.pkg = sf.Pkg
	for i, a := range args {
		v, err := ce.eval(a)
		if err != nil {
			return Val{}, err
		}
		if isUntyped(v) {
			if t, err := sce.resolveType(sf.PTypes[i]); err == nil {
				v = convertConst(v, t)
				v.T = t
			}
		}
		vars[sf.Params[i]] = v
	}
	sce.vars = vars
	r, err := sce.eval(sf.Body)
	if err != nil {
		return Val{}, fmt.Errorf("in spec %s: %v", sf.Name, err)
	}
	if sf.Ret != nil && isUntyped(r) {
		if t, err := sce.resolveType(sf.Ret); err == nil {
			r = convertConst(r, t)
			r.T = t
		}
	}
	return r, nil
}

func (ce *CEnv) evalQuant(forall bool, fl *ast.FuncLit) (Val, error) {
	vars := map[string]Val{}
	for k, v := range ce.vars {
		vars[k] = v
	}
	var bound []*Term
	for _, f := range fl.Type.Params.List {
		t, err := ce.resolveType(f.Type)
		if err != nil {
			return Val{}, err
		}
		l := layoutOf(t)
		if len(l) != 1 {
			return Val{}, fmt.Errorf("quantified variable of type %s", typeKey(t))
		}
		for _, nm := range f.Names {
			qcount++
			b := BoundVar(fmt.Sprintf("%s!q%d", nm.Name, qcount), l[0].Sort)
			bound = append(bound, b)
			vars[nm.Name] = Val{T: t, C: []*Term{b}}
		}
	}
	if len(fl.Body.List) != 1 {
		return Val{}, fmt.Errorf("quantifier body must be a single return")
	}
	ret, ok := fl.Body.List[0].(*ast.ReturnStmt)
	if !ok || len(ret.Results) != 1 {
		return Val{}, fmt.Errorf("quantifier body must be a single return")
	}
	body, err := ce.with(vars).eval(ret.Results[0])
	if err != nil {
		return Val{}, err
	}
	if forall {
		var pats [][]*Term
		if len(bound) == 1 {
			pats = patternsFor(body.C[0], bound[0])
		}
		return bval(Forall(bound, body.C[0], pats...)), nil
	}
	return bval(Exists(bound, body.C[0])), nil
}

// patternsFor picks array reads / uninterpreted applications indexed by the bound variable as triggers.
func patternsFor(body *Term, b *Term) [][]*Term {
	var out [][]*Term
	seen := map[*Term]bool{}
	var walk func(t *Term)
	walk = func(t *Term) {
		if seen[t] || !t.hasBound {
			return
		}
		seen[t] = true
		if (t.Op == "select" && t.Args[1] == b && !t.Args[0].hasBound) || (t.Op == "uf" && containsDirect(t, b)) {
			if len(out) < 3 {
				out = append(out, []*Term{t})
			}
			return
		}
		for _, a := range t.Args {
			walk(a)
		}
	}
	walk(body)
	return out
}

func containsDirect(t *Term, b *Term) bool {
	for _, a := range t.Args {
		if a == b {
			return true
		}
	}
	return false
}

// is_cat(s, p1, ..., pn): the slice s is exactly the concatenation of the parts. A part is a byte value,
// a slice or string, or rep(b, n).
func (ce *CEnv) evalIsCat(n *ast.CallExpr) (Val, error) {
	s, err := ce.eval(n.Args[0])
	if err != nil {
		return Val{}, err
	}
	sv, err := ce.contentAt(s)
	if err != nil {
		return Val{}, err
	}
	pos := sv.base
	var conj []*Term
	var parts []ast.Expr
	for _, pe := range n.Args[1:] {
		parts = append(parts, expandSeqPart(pe)...)
	}
	for _, pe := range parts {
		if call, ok := pe.(*ast.CallExpr); ok {
			if id, ok := call.Fun.(*ast.Ident); ok && id.Name == "rep" {
				bv, err := ce.eval(call.Args[0])
				if err != nil {
					return Val{}, err
				}
				nv, err := ce.eval(call.Args[1])
				if err != nil {
					return Val{}, err
				}
				if isUntyped(bv) {
					bv = convertConst(bv, types.Typ[types.Uint8])
				}
				cnt := ce.toIdx(nv)
				b0 := bv.C[0]
				conj = append(conj, BVCmp("bvsle", bv64(0), cnt), rangeEq(sv, pos, cnt, func(*Term) *Term { return b0 }))
				pos = BVBin("bvadd", pos, cnt)
				continue
			}
		}
		pv, err := ce.eval(pe)
		if err != nil {
			return Val{}, err
		}
		if isUntyped(pv) {
			pv = convertConst(pv, types.Typ[types.Uint8])
		}
		if len(pv.C) == 1 && pv.C[0].Sort == BV8 {
			conj = append(conj, Eq(sv.at(pos), pv.C[0]))
			pos = BVBin("bvadd", pos, bv64(1))
			continue
		}
		pvw, err := ce.contentAt(pv)
		if err != nil {
			return Val{}, err
		}
		conj = append(conj, rangeEq(sv, pos, pvw.ln, func(rel *Term) *Term { return pvw.at(BVBin("bvadd", pvw.base, rel)) }))
		pos = BVBin("bvadd", pos, pvw.ln)
	}
	conj = append(conj, Eq(BVBin("bvadd", sv.base, sv.ln), pos))
	return bval(And(conj...)), nil
}

func mustExpr(s string) ast.Expr {
	e, err := parseCExpr(s)
	if err != nil {
		panic(err)
	}
	return e
}

func exprText(e ast.Expr) string {
	var sb strings.Builder
	printer.Fprint(&sb, token.NewFileSet(), e)
	return sb.String()
}

// expandSeqPart rewrites the sequence constructors be32seq(x), be64seq(x), hdrseq(tag, typ, len) into byte parts.
func expandSeqPart(pe ast.Expr) []ast.Expr {
	call, ok := pe.(*ast.CallExpr)
	if !ok {
		return []ast.Expr{pe}
	}
	id, ok := call.Fun.(*ast.Ident)
	if !ok {
		return []ast.Expr{pe}
	}
	switch id.Name {
	case "be32seq":
		x := exprText(call.Args[0])
		var out []ast.Expr
		for _, sh := range []int{24, 16, 8, 0} {
			out = append(out, mustExpr(fmt.Sprintf("uint8(uint32(%s)>>%d)", x, sh)))
		}
		return out
	case "be64seq":
		x := exprText(call.Args[0])
		var out []ast.Expr
		for _, sh := range []int{56, 48, 40, 32, 24, 16, 8, 0} {
			out = append(out, mustExpr(fmt.Sprintf("uint8(uint64(%s)>>%d)", x, sh)))
		}
		return out
	case "hdrseq":
		tag, typ, ln := exprText(call.Args[0]), exprText(call.Args[1]), exprText(call.Args[2])
		out := []ast.Expr{mustExpr(fmt.Sprintf("uint8((%s)>>16)", tag)), mustExpr(fmt.Sprintf("uint8((%s)>>8)", tag)), mustExpr(fmt.Sprintf("uint8(%s)", tag)), mustExpr(fmt.Sprintf("uint8(%s)", typ))}
		return append(out, expandSeqPart(mustExpr(fmt.Sprintf("be32seq(uint32(%s))", ln)))...)
	}
	return []ast.Expr{pe}
}
