package main

// Reader for the //@ contract language kept in zz_verif_contracts*.go files of /repo (build tag verif).

import (
	"fmt"
	"go/ast"
	"go/parser"
	"go/types"
	"os"
	"path/filepath"
	"regexp"
	"strconv"
	"strings"

	"golang.org/x/tools/go/packages"
	"golang.org/x/tools/go/ssa"
)

type Clause struct {
	Text string
	Expr ast.Expr
	File string
	Line int
}

type LoopContract struct {
	Invariants    []*Clause
	Decreases     *Clause
	GhostModified map[string]bool
}

type FuncContract struct {
	Kind        string // func | functype | iface
	Name        string // package-relative name, e.g. (*ttlvReader).value, padForLen, (*Client).Roundtrip$1
	PkgPath     string
	Pkg         *types.Package
	Requires    []*Clause
	Ensures     []*Clause
	Covers      []*Clause // "cover e": some exit must satisfy e (vacuity guard for conditional post-conditions)
	Modifies    []*Clause
	GhostUpdates []*Clause
	GhostMod     []string
	UseBody      map[string]bool
	HasModifies bool
	Pure        bool
	Inline      bool
	Trusted     bool
	Functional  bool // the result is an uninterpreted function of the receiver and arguments
	MayPanic    bool
	PanicCond   *Clause // `maypanic e`: a panic is possible only in entry states satisfying e
	Loops       map[int]*LoopContract
	ResultNames []string
	ParamNames  []string
	Recv        string
	File        string
	Line        int
	Lemma       bool
}

type SpecFn struct {
	Name   string
	Params []string
	PTypes []ast.Expr
	Ret    ast.Expr
	Body   ast.Expr
	Pkg    *types.Package
	Text   string
}

type GhostVar struct {
	Name string
	Type ast.Expr
	Pkg  *types.Package
}

type ContractSet struct {
	funcs     map[string]*FuncContract // key: pkgpath + "." + name
	functypes map[string]*FuncContract // key: type key (pkgname.Type)
	ifaces    map[string]*FuncContract // key: ifaceTypeKey.Method
	externs   map[string]*FuncContract // key: full name of a function outside the module (ssa.Function.String()); assumed
	specs     map[string]*SpecFn       // key: pkgpath.name and bare name
	ghosts    map[string]*GhostVar
	pkgs      map[string]*types.Package
	files     []string
	count     int
}

func newContractSet() *ContractSet {
	return &ContractSet{funcs: map[string]*FuncContract{}, functypes: map[string]*FuncContract{}, ifaces: map[string]*FuncContract{}, externs: map[string]*FuncContract{},
		specs: map[string]*SpecFn{}, ghosts: map[string]*GhostVar{}, pkgs: map[string]*types.Package{}}
}

func relName(fn *ssa.Function) (pkgPath, name string) {
	pkg := fn.Pkg
	f := fn
	for pkg == nil && f.Parent() != nil {
		f = f.Parent()
		pkg = f.Pkg
	}
	if pkg == nil && fn.Origin() != nil {
		pkg = fn.Origin().Pkg
	}
	if pkg == nil {
		return "", fn.String()
	}
	pkgPath = pkg.Pkg.Path()
	s := fn.String()
	// forms: pkgpath.Name, (pkgpath.T).M, (*pkgpath.T).M, with $n suffixes
	s = strings.ReplaceAll(s, pkgPath+".", "")
	return pkgPath, s
}

func (cs *ContractSet) forFunc(fn *ssa.Function) *FuncContract {
	if fn == nil {
		return nil
	}
	p, n := relName(fn)
	if c, ok := cs.funcs[p+"."+n]; ok {
		return c
	}
	// instances of generic functions share the contract of their origin
	if o := fn.Origin(); o != nil && o != fn {
		po, no := relName(o)
		return cs.funcs[po+"."+no]
	}
	return nil
}

func (cs *ContractSet) pkgOf(fn *ssa.Function) *types.Package {
	f := fn
	for f.Pkg == nil && f.Parent() != nil {
		f = f.Parent()
	}
	if f.Pkg != nil {
		return f.Pkg.Pkg
	}
	if fn.Origin() != nil && fn.Origin().Pkg != nil {
		return fn.Origin().Pkg.Pkg
	}
	return nil
}

func (cs *ContractSet) forFuncType(tkey string, sig *types.Signature) *FuncContract {
	return cs.functypes[tkey]
}

func (cs *ContractSet) forIface(name string, m *types.Func) *FuncContract {
	return cs.ifaces[name]
}

var kwRe = regexp.MustCompile(`^(requires|ensures|cover|modifies|pure|inline|trusted|maypanic|loop|results|params|recv|ghostmod|ghost|lemma|usebody|functional)\b`)

// load reads every zz_verif_contracts*.go of the loaded packages.
func (cs *ContractSet) load(pkgs []*packages.Package) error {
	seen := map[string]bool{}
	var visit func(p *packages.Package) error
	visit = func(p *packages.Package) error {
		if seen[p.PkgPath] {
			return nil
		}
		seen[p.PkgPath] = true
		cs.pkgs[p.PkgPath] = p.Types
		for _, f := range p.GoFiles {
			if strings.HasPrefix(filepath.Base(f), "zz_verif_") {
				if err := cs.loadFile(f, p); err != nil {
					return err
				}
			}
		}
		for _, ip := range p.Imports {
			if strings.HasPrefix(ip.PkgPath, "github.com/ovh/kmip-go") {
				if err := visit(ip); err != nil {
					return err
				}
			}
		}
		return nil
	}
	for _, p := range pkgs {
		if err := visit(p); err != nil {
			return err
		}
	}
	return nil
}

func (cs *ContractSet) loadFile(path string, p *packages.Package) error {
	data, err := os.ReadFile(path)
	if err != nil {
		return err
	}
	cs.files = append(cs.files, path)
	var cur *FuncContract
	lines := strings.Split(string(data), "\n")
	for i := 0; i < len(lines); i++ {
		ln := strings.TrimSpace(lines[i])
		if !strings.HasPrefix(ln, "//@") {
			continue
		}
		text := strings.TrimSpace(ln[3:])
		// continuation lines: "//@ | more"
		for i+1 < len(lines) {
			nx := strings.TrimSpace(lines[i+1])
			if strings.HasPrefix(nx, "//@") && strings.HasPrefix(strings.TrimSpace(nx[3:]), "|") {
				text += " " + strings.TrimSpace(strings.TrimSpace(nx[3:])[1:])
				i++
				continue
			}
			break
		}
		if idx := strings.Index(text, " //"); idx >= 0 {
			text = strings.TrimSpace(text[:idx])
		}
		if text == "" {
			continue
		}
		where := fmt.Sprintf("%s:%d", filepath.Base(path), i+1)
		mkClause := func(s string) (*Clause, error) {
			e, err := parseCExpr(s)
			if err != nil {
				return nil, fmt.Errorf("%s: %q: %v", where, s, err)
			}
			return &Clause{Text: s, Expr: e, File: path, Line: i + 1}, nil
		}
		switch {
		case strings.HasPrefix(text, "spec "):
			sf, err := parseSpec(text[5:], p.Types)
			if err != nil {
				return fmt.Errorf("%s: %v", where, err)
			}
			cs.specs[p.PkgPath+"."+sf.Name] = sf
			cs.specs[sf.Name] = sf
			cur = nil
		case strings.HasPrefix(text, "ghostvar "):
			parts := strings.Fields(text[9:])
			if len(parts) != 2 {
				return fmt.Errorf("%s: ghostvar name type", where)
			}
			te, err := parser.ParseExpr(parts[1])
			if err != nil {
				return fmt.Errorf("%s: %v", where, err)
			}
			cs.ghosts[parts[0]] = &GhostVar{Name: parts[0], Type: te, Pkg: p.Types}
			cur = nil
		case strings.HasPrefix(text, "func "), strings.HasPrefix(text, "functype "), strings.HasPrefix(text, "iface "), strings.HasPrefix(text, "lemma "), strings.HasPrefix(text, "extern "):
			sp := strings.SplitN(text, " ", 2)
			name := strings.TrimSpace(sp[1])
			cur = &FuncContract{Kind: sp[0], Name: name, PkgPath: p.PkgPath, Pkg: p.Types, Loops: map[int]*LoopContract{}, File: path, Line: i + 1}
			cs.count++
			switch sp[0] {
			case "func", "lemma":
				if sp[0] == "lemma" {
					cur.Kind = "func"
					cur.Lemma = true
				}
				cs.funcs[p.PkgPath+"."+name] = cur
			case "functype":
				cs.functypes[name] = cur
			case "iface":
				cs.ifaces[name] = cur
			case "extern":
				// assumed contract of a function outside the module: its requires become obligations of the
				// callers, its ensures and frame are assumptions (listed in the evidence)
				cur.Trusted = true
				cs.externs[name] = cur
			}
		default:
			if cur == nil {
				return fmt.Errorf("%s: clause outside of a declaration: %s", where, text)
			}
			m := kwRe.FindString(text)
			rest := strings.TrimSpace(text[len(m):])
			switch m {
			case "requires":
				c, err := mkClause(rest)
				if err != nil {
					return err
				}
				cur.Requires = append(cur.Requires, c)
			case "ensures":
				c, err := mkClause(rest)
				if err != nil {
					return err
				}
				cur.Ensures = append(cur.Ensures, c)
			case "cover":
				c, err := mkClause(rest)
				if err != nil {
					return err
				}
				cur.Covers = append(cur.Covers, c)
			case "modifies":
				cur.HasModifies = true
				for _, part := range splitTop(rest, ',') {
					c, err := mkClause(strings.TrimSpace(part))
					if err != nil {
						return err
					}
					cur.Modifies = append(cur.Modifies, c)
				}
			case "ghost":
				gp := strings.SplitN(rest, " = ", 2)
				if len(gp) != 2 {
					return fmt.Errorf("%s: ghost <name> = <expr>", where)
				}
				c, err := mkClause(strings.TrimSpace(gp[1]))
				if err != nil {
					return err
				}
				c.Text = strings.TrimSpace(gp[0])
				cur.GhostUpdates = append(cur.GhostUpdates, c)
			case "ghostmod":
				for _, g := range strings.Split(rest, ",") {
					cur.GhostMod = append(cur.GhostMod, strings.TrimSpace(g))
				}
			case "usebody":
				if cur.UseBody == nil {
					cur.UseBody = map[string]bool{}
				}
				for _, g := range strings.Split(rest, ",") {
					cur.UseBody[strings.TrimSpace(g)] = true
				}
			case "functional":
				cur.Functional = true
			case "pure":
				cur.Pure = true
			case "inline":
				cur.Inline = true
			case "trusted":
				cur.Trusted = true
			case "maypanic":
				cur.MayPanic = true
				if rest != "" {
					c, err := mkClause(rest)
					if err != nil {
						return err
					}
					cur.PanicCond = c
				}
			case "results":
				for _, n := range strings.Split(rest, ",") {
					cur.ResultNames = append(cur.ResultNames, strings.TrimSpace(n))
				}
			case "params":
				for _, n := range strings.Split(rest, ",") {
					cur.ParamNames = append(cur.ParamNames, strings.TrimSpace(n))
				}
			case "recv":
				cur.Recv = rest
			case "loop":
				f := strings.SplitN(rest, " ", 3)
				if len(f) < 3 {
					return fmt.Errorf("%s: loop <n> invariant|decreases|ghostmod <expr>", where)
				}
				n, err := strconv.Atoi(f[0])
				if err != nil {
					return fmt.Errorf("%s: loop ordinal: %v", where, err)
				}
				lc := cur.Loops[n]
				if lc == nil {
					lc = &LoopContract{GhostModified: map[string]bool{}}
					cur.Loops[n] = lc
				}
				switch f[1] {
				case "invariant":
					c, err := mkClause(f[2])
					if err != nil {
						return err
					}
					lc.Invariants = append(lc.Invariants, c)
				case "decreases":
					c, err := mkClause(f[2])
					if err != nil {
						return err
					}
					lc.Decreases = c
				case "ghostmod":
					for _, g := range strings.Split(f[2], ",") {
						lc.GhostModified[strings.TrimSpace(g)] = true
					}
				default:
					return fmt.Errorf("%s: unknown loop clause %s", where, f[1])
				}
			default:
				return fmt.Errorf("%s: unknown clause: %s", where, text)
			}
		}
	}
	return nil
}

func parseSpec(s string, pkg *types.Package) (*SpecFn, error) {
	eq := strings.Index(s, " = ")
	if eq < 0 {
		return nil, fmt.Errorf("spec needs ' = ': %s", s)
	}
	head, body := s[:eq], s[eq+3:]
	fe, err := parser.ParseExpr("func " + head[strings.Index(head, "("):] + "{}")
	if err != nil {
		return nil, fmt.Errorf("spec head %q: %v", head, err)
	}
	fl := fe.(*ast.FuncLit)
	sf := &SpecFn{Name: strings.TrimSpace(head[:strings.Index(head, "(")]), Pkg: pkg, Text: s}
	for _, f := range fl.Type.Params.List {
		for _, n := range f.Names {
			sf.Params = append(sf.Params, n.Name)
			sf.PTypes = append(sf.PTypes, f.Type)
		}
	}
	if fl.Type.Results != nil && len(fl.Type.Results.List) == 1 {
		sf.Ret = fl.Type.Results.List[0].Type
	}
	sf.Body, err = parseCExpr(body)
	if err != nil {
		return nil, fmt.Errorf("spec body %q: %v", body, err)
	}
	return sf, nil
}

// splitTop splits s at top-level (paren/bracket depth 0) occurrences of sep.
func splitTop(s string, sep byte) []string {
	var out []string
	depth := 0
	last := 0
	inStr := false
	for i := 0; i < len(s); i++ {
		c := s[i]
		if inStr {
			if c == '\\' {
				i++
			} else if c == '"' {
				inStr = false
			}
			continue
		}
		switch c {
		case '"':
			inStr = true
		case '(', '[', '{':
			depth++
		case ')', ']', '}':
			depth--
		default:
			if c == sep && depth == 0 {
				out = append(out, s[last:i])
				last = i + 1
			}
		}
	}
	out = append(out, s[last:])
	return out
}

// rewriteExt turns the extension syntax into plain Go call syntax:
//   a ==> b        __imp(a, b)          (right associative, lowest precedence)
//   a <==> b       __iff(a, b)
//   forall i int :: e     __forall(func(i int) bool { return e })   (extends to the end of the group)
//   exists i int :: e     __exists(...)
func rewriteExt(s string) string {
	s = strings.TrimSpace(s)
	// recursively rewrite parenthesised groups first
	var sb strings.Builder
	depth := 0
	start := -1
	inStr := false
	for i := 0; i < len(s); i++ {
		c := s[i]
		if inStr {
			if depth == 0 {
				sb.WriteByte(c)
			}
			if c == '\\' {
				i++
				if depth == 0 && i < len(s) {
					sb.WriteByte(s[i])
				}
			} else if c == '"' {
				inStr = false
			}
			continue
		}
		switch c {
		case '"':
			inStr = true
			if depth == 0 {
				sb.WriteByte(c)
			}
		case '(', '[':
			if depth == 0 {
				start = i
			}
			depth++
		case ')', ']':
			depth--
			if depth == 0 {
				inner := s[start+1 : i]
				parts := splitTop(inner, ',')
				for j := range parts {
					parts[j] = rewriteExt(parts[j])
				}
				sb.WriteByte(s[start])
				sb.WriteString(strings.Join(parts, ", "))
				sb.WriteByte(c)
			}
		default:
			if depth == 0 {
				sb.WriteByte(c)
			}
		}
	}
	s = sb.String()
	// quantifiers at this level
	for _, q := range []string{"forall", "exists"} {
		if strings.HasPrefix(s, q+" ") {
			if idx := strings.Index(s, "::"); idx > 0 {
				decl := strings.TrimSpace(s[len(q):idx])
				body := rewriteExt(s[idx+2:])
				return fmt.Sprintf("__%s(func(%s) bool { return %s })", q, decl, body)
			}
		}
	}
	if idx := indexTop(s, "<==>"); idx >= 0 {
		return fmt.Sprintf("__iff(%s, %s)", rewriteExt(s[:idx]), rewriteExt(s[idx+4:]))
	}
	if idx := indexTop(s, "==>"); idx >= 0 {
		return fmt.Sprintf("__imp(%s, %s)", rewriteExt(s[:idx]), rewriteExt(s[idx+3:]))
	}
	return s
}

func indexTop(s, pat string) int {
	depth := 0
	inStr := false
	for i := 0; i+len(pat) <= len(s); i++ {
		c := s[i]
		if inStr {
			if c == '\\' {
				i++
			} else if c == '"' {
				inStr = false
			}
			continue
		}
		switch c {
		case '"':
			inStr = true
		case '(', '[', '{':
			depth++
		case ')', ']', '}':
			depth--
		}
		if depth == 0 && strings.HasPrefix(s[i:], pat) {
			// do not match the tail of "<==>" when looking for "==>"
			if pat == "==>" && i > 0 && s[i-1] == '<' {
				continue
			}
			return i
		}
	}
	return -1
}

func parseCExpr(s string) (ast.Expr, error) {
	r := rewriteExt(s)
	e, err := parser.ParseExpr(r)
	if err != nil {
		return nil, fmt.Errorf("%v (rewritten: %s)", err, r)
	}
	return e, nil
}
