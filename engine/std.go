package main

// Assumed contracts of dependencies (standard library), written as executable handlers.
// Every handler used by a run is listed in that run's evidence under assumptions.

import (
	"go/types"

	"golang.org/x/tools/go/ssa"
)

type stdHandler func(x *Exec, fr *Frame, st *State, site ssa.Instruction, callee *ssa.Function, args []Val, k Kont)
type ifaceHandler func(x *Exec, fr *Frame, st *State, site ssa.Instruction, recv Val, args []Val, k Kont)

var stdHandlers map[string]stdHandler
var ifaceHandlers = map[string]ifaceHandler{
	"(net.Conn).RemoteAddr":   hNonNilResult("(net.Conn).RemoteAddr"),
	"(net.Listener).Addr":     hNonNilResult("(net.Listener).Addr"),
	"(context.Context).Value": hCtxValue,
	"(error).Error":           hErrorString,
	"(fmt.Stringer).String":   hStringerString,
	"(context.Context).Err":   hPureIface("ctxerr"),
	"(context.Context).Done":  hPureIface("ctxdone"),
	"(context.Context).Deadline": hPureIface("ctxdeadline"),
}

// hPureIface: an interface method assumed pure; its result is unconstrained.
func hPureIface(name string) ifaceHandler {
	return func(x *Exec, fr *Frame, st *State, site ssa.Instruction, recv Val, args []Val, k Kont) {
		x.assumeNote("assumed contract " + name + ": pure (no caller-visible writes, no panic), result unconstrained")
		var sig *types.Signature
		if c, ok := site.(ssa.CallInstruction); ok {
			sig = c.Common().Signature()
		}
		res := freshVal(resultType(sig), name)
		x.assumeWF(st, res)
		k(st, res, false)
	}
}

func hStringerString(x *Exec, fr *Frame, st *State, site ssa.Instruction, recv Val, args []Val, k Kont) {
	x.assumeNote("assumed contract (fmt.Stringer).String: pure, returns a string determined by the receiver")
	k(st, Val{T: types.Typ[types.String], C: []*Term{UF("stringerstr", IntSort, recv.C[0], recv.C[1])}}, false)
}

// ctx.Value(key): a deterministic function of the context value and the key's dynamic type
// (keys in this code base are values of distinct empty struct types).
func ctxValue(ctx Val, key Val) (typ, val *Term) {
	return UF("ctxval.typ", IntSort, ctx.C[0], ctx.C[1], key.C[0]), UF("ctxval.val", IntSort, ctx.C[0], ctx.C[1], key.C[0])
}

func hCtxValue(x *Exec, fr *Frame, st *State, site ssa.Instruction, recv Val, args []Val, k Kont) {
	x.assumeNote("assumed contract (context.Context).Value: pure, deterministic in (context, key type); WithValue(p,k,v).Value(k) == v and other keys delegate to p")
	typ, val := ctxValue(recv, args[0])
	st.assume(IntCmp(">=", typ, IntConst(0)))
	st.assume(Implies(Eq(typ, IntConst(0)), Eq(val, IntConst(0))))
	st.assume(st.liveRef(val))
	k(st, Val{T: types.NewInterfaceType(nil, nil), C: []*Term{typ, val}}, false)
}

func hErrorString(x *Exec, fr *Frame, st *State, site ssa.Instruction, recv Val, args []Val, k Kont) {
	x.assumeNote("assumed contract (error).Error: pure, returns a string determined by the error value")
	k(st, Val{T: types.Typ[types.String], C: []*Term{UF("errstr", IntSort, recv.C[0], recv.C[1])}}, false)
}

var stdDocs = map[string]string{
	"math/bits.LeadingZeros8":    "returns the number of leading zero bits in x; 8 for x == 0 (exact)",
	"math/big.NewInt":            "allocates a fresh Int with the sign of x (magnitude abstract)",
	"(*math/big.Int).SetBytes":   "interprets buf as big-endian unsigned; z becomes >= 0; reads buf, writes only z; returns z",
	"(*math/big.Int).Bytes":      "returns a fresh slice holding the big-endian magnitude without leading zeros; empty for 0",
	"(*math/big.Int).Sign":       "returns -1, 0 or +1",
	"(*math/big.Int).Neg":        "sets z to -x and returns z",
	"time.Unix":                  "returns the Time for the given Unix seconds; (Time).Unix of it returns sec when nsec == 0",
	"(time.Time).Unix":           "returns Unix seconds as a function of the time value",
	"(time.Time).UTC":            "returns a Time denoting the same instant (same Unix seconds); only the location differs",
	"(time.Time).Local":          "returns a Time denoting the same instant (same Unix seconds); only the location differs",
	"(time.Duration).Seconds":    "float seconds; converting a whole-second duration below 2^32 s to uint32 is exact",
	"fmt.Errorf":                 "returns a non-nil error; reads its arguments only",
	"errors.New":                 "returns a non-nil error",
	"fmt.Sprintf":                "returns a string; reads its arguments only",
}

func init() {
	stdHandlers = map[string]stdHandler{
		"math/bits.LeadingZeros8":  hLeadingZeros8,
		"math/big.NewInt":          hBigNewInt,
		"(*math/big.Int).SetBytes": hBigSetBytes,
		"(*math/big.Int).Bytes":    hBigBytes,
		"(*math/big.Int).Sign":     hBigSign,
		"(*math/big.Int).Neg":      hBigNeg,
		"time.Unix":                hTimeUnix,
		"(time.Time).Unix":         hTimeUnixMethod,
		"(time.Time).UTC":          hTimeSameInstant("(time.Time).UTC"),
		"(time.Time).Local":        hTimeSameInstant("(time.Time).Local"),
		"(time.Duration).Seconds":  hDurSeconds,
		"fmt.Errorf":               hNewError,
		"errors.New":               hNewError,
		"context.WithValue":        hCtxWithValue,
		"slices.Contains":          hSlicesContains,
		"strings.HasPrefix":        hStringsHasPrefix,
		"(*encoding/xml.Decoder).Token": hGhostLatch("xmlAdvanced"),
		"encoding/xml.NewDecoder":  hNonNilIface("encoding/xml.NewDecoder"),
		"encoding/json.NewDecoder": hNonNilIface("encoding/json.NewDecoder"),
		"errors.Is":                hErrorsIs,
		"errors.Join":              hErrorsJoin,
		"(*sync/atomic.Bool).Load":  hAtomicBool("Load"),
		"(*sync/atomic.Bool).Store": hAtomicBool("Store"),
		"(*sync/atomic.Bool).Swap":  hAtomicBool("Swap"),
		"errors.As":                hErrorsAs,
		"(*sync.WaitGroup).Done":   hGhostCount("wgDone"),
		"(*sync.WaitGroup).Wait":   hWgWait,
		"(*crypto/tls.Conn).Handshake":        hGhostCountErr("tlsHandshakes"),
		"(*crypto/tls.Conn).SetDeadline":      hSetDeadline,
		"(*crypto/tls.Conn).SetReadDeadline":  hSetDeadline,
		"(*crypto/tls.Conn).SetWriteDeadline": hSetDeadline,
		"(*crypto/tls.Conn).HandshakeContext": hGhostCountErr("tlsHandshakes"),
		"(*sync.WaitGroup).Add":    hGhostCount("wgAdd"),
		"(*sync.Mutex).Lock":       hMutex(1),
		"(*sync.Mutex).Unlock":     hMutex(-1),
		"crypto/elliptic.P224":     hNonNilIface("crypto/elliptic.P224"),
		"crypto/elliptic.P256":     hNonNilIface("crypto/elliptic.P256"),
		"crypto/elliptic.P384":     hNonNilIface("crypto/elliptic.P384"),
		"crypto/elliptic.P521":     hNonNilIface("crypto/elliptic.P521"),
		"crypto/x509.ParseCertificate": hPtrOrErr("crypto/x509.ParseCertificate"),
	}
}

func used(x *Exec, name string) {
	x.assumeNote("assumed contract " + name + ": " + stdDocs[name])
}

func hLeadingZeros8(x *Exec, fr *Frame, st *State, site ssa.Instruction, callee *ssa.Function, args []Val, k Kont) {
	used(x, "math/bits.LeadingZeros8")
	v := args[0].C[0]
	r := bv64(8)
	for i := 0; i < 8; i++ {
		// highest set bit i => 7-i leading zeros; build from low to high so the highest wins
		bit := Eq(Extract(i, i, v), BVConst(1, 1))
		r = Ite(bit, bv64(int64(7-i)), r)
	}
	k(st, Val{T: types.Typ[types.Int], C: []*Term{r}}, false)
}

const bigKey = "big.Int"

func bigSign(st *State, ref *Term) *Term {
	return Select(st.heapMap(bigKey+"|$sign", ArraySort(IntSort, BV64)), ref)
}
func bigMag(st *State, ref *Term) *Term {
	return Select(st.heapMap(bigKey+"|$mag", ArraySort(IntSort, IntSort)), ref)
}

func bigWF(st *State, ref *Term) {
	s, m := bigSign(st, ref), bigMag(st, ref)
	st.assume(Or(Eq(s, bv64(0)), Eq(s, bv64(1)), Eq(s, bv64(-1))))
	st.assume(BVCmp("bvsle", bv64(0), slen(m)))
	st.assume(BVCmp("bvsle", slen(m), bv64(1<<32)))
	st.assume(Eq(Eq(s, bv64(0)), Eq(slen(m), bv64(0))))
	st.assume(Implies(BVCmp("bvslt", bv64(0), slen(m)), Not(Eq(sbyte(m, bv64(0)), BVConst(0, 8)))))
}

func setBig(x *Exec, fr *Frame, st *State, ref, sign, mag *Term, site ssa.Instruction) {
	hs := st.heapMap(bigKey+"|$sign", ArraySort(IntSort, BV64))
	hm := st.heapMap(bigKey+"|$mag", ArraySort(IntSort, IntSort))
	x.loopFrameCheck(fr, st, bigKey+"|$sign", ref, site.Pos(), true, nil)
	st.heap[bigKey+"|$sign"] = Store(hs, ref, sign)
	st.heap[bigKey+"|$mag"] = Store(hm, ref, mag)
	st.recordWrite(bigKey+"|$sign", ref, x.posOf(site.Pos()))
}

func hBigNewInt(x *Exec, fr *Frame, st *State, site ssa.Instruction, callee *ssa.Function, args []Val, k Kont) {
	used(x, "math/big.NewInt")
	v := args[0].C[0]
	ref := st.alloc()
	sign := Ite(BVCmp("bvslt", v, bv64(0)), bv64(-1), Ite(Eq(v, bv64(0)), bv64(0), bv64(1)))
	mag := FreshVar("mag", IntSort)
	if v == bv64(0) {
		mag = IntConst(0)
	}
	hs := st.heapMap(bigKey+"|$sign", ArraySort(IntSort, BV64))
	hm := st.heapMap(bigKey+"|$mag", ArraySort(IntSort, IntSort))
	st.heap[bigKey+"|$sign"] = Store(hs, ref, sign)
	st.heap[bigKey+"|$mag"] = Store(hm, ref, mag)
	bigWF(st, ref)
	k(st, Val{T: callee.Signature.Results().At(0).Type(), C: []*Term{ref}}, false)
}

func hBigSetBytes(x *Exec, fr *Frame, st *State, site ssa.Instruction, callee *ssa.Function, args []Val, k Kont) {
	used(x, "(*math/big.Int).SetBytes")
	z, buf := args[0], args[1]
	x.nilCheck(fr, st, z, site.Pos(), "big.SetBytes")
	h := Select(st.heapMap("[]uint8|", ArraySort(IntSort, ArraySort(BV64, BV8))), buf.Arr())
	mag := FreshVar("mag", IntSort)
	L := buf.Len()
	st.assume(BVCmp("bvsle", bv64(0), slen(mag)))
	st.assume(BVCmp("bvsle", slen(mag), L))
	st.assume(Implies(BVCmp("bvslt", bv64(0), slen(mag)), Not(Eq(sbyte(mag, bv64(0)), BVConst(0, 8)))))
	// no leading zero byte: the magnitude is the buffer itself
	first := Select(h, buf.Off())
	noLead := And(BVCmp("bvslt", bv64(0), L), Not(Eq(first, BVConst(0, 8))))
	i := BoundVar("i!sb", BV64)
	st.assume(Implies(noLead, And(Eq(slen(mag), L),
		Forall([]*Term{i}, Implies(And(BVCmp("bvsle", bv64(0), i), BVCmp("bvslt", i, L)), Eq(sbyte(mag, i), Select(h, BVBin("bvadd", buf.Off(), i)))), []*Term{sbyte(mag, i)}))))
	st.assume(Implies(Eq(L, bv64(0)), Eq(slen(mag), bv64(0))))
	sign := Ite(Eq(slen(mag), bv64(0)), bv64(0), bv64(1))
	setBig(x, fr, st, z.C[0], sign, mag, site)
	k(st, z, false)
}

func hBigBytes(x *Exec, fr *Frame, st *State, site ssa.Instruction, callee *ssa.Function, args []Val, k Kont) {
	used(x, "(*math/big.Int).Bytes")
	z := args[0]
	x.nilCheck(fr, st, z, site.Pos(), "big.Bytes")
	bigWF(st, z.C[0])
	mag := bigMag(st, z.C[0])
	ref := st.alloc()
	L := slen(mag)
	name := "[]uint8|"
	hh := st.heapMap(name, ArraySort(IntSort, ArraySort(BV64, BV8)))
	A := FreshVar("bigbytes", ArraySort(BV64, BV8))
	i := BoundVar("i!bb", BV64)
	st.assume(Forall([]*Term{i}, Implies(And(BVCmp("bvsle", bv64(0), i), BVCmp("bvslt", i, L)), Eq(Select(A, i), sbyte(mag, i))), []*Term{Select(A, i)}))
	st.heap[name] = Store(hh, ref, A)
	k(st, mkSlice(callee.Signature.Results().At(0).Type(), ref, bv64(0), L, L), false)
}

func hBigSign(x *Exec, fr *Frame, st *State, site ssa.Instruction, callee *ssa.Function, args []Val, k Kont) {
	used(x, "(*math/big.Int).Sign")
	z := args[0]
	x.nilCheck(fr, st, z, site.Pos(), "big.Sign")
	bigWF(st, z.C[0])
	k(st, Val{T: types.Typ[types.Int], C: []*Term{bigSign(st, z.C[0])}}, false)
}

func hBigNeg(x *Exec, fr *Frame, st *State, site ssa.Instruction, callee *ssa.Function, args []Val, k Kont) {
	used(x, "(*math/big.Int).Neg")
	z, a := args[0], args[1]
	x.nilCheck(fr, st, z, site.Pos(), "big.Neg")
	x.nilCheck(fr, st, a, site.Pos(), "big.Neg")
	bigWF(st, a.C[0])
	setBig(x, fr, st, z.C[0], BVNeg(bigSign(st, a.C[0])), bigMag(st, a.C[0]), site)
	k(st, z, false)
}

func timeUnix(v Val) *Term {
	return UF("time.unix", BV64, v.C[0], v.C[1])
}

func hTimeUnix(x *Exec, fr *Frame, st *State, site ssa.Instruction, callee *ssa.Function, args []Val, k Kont) {
	used(x, "time.Unix")
	r := freshVal(callee.Signature.Results().At(0).Type(), "time")
	x.assumeWF(st, r)
	st.assume(Implies(Eq(args[1].C[0], bv64(0)), Eq(timeUnix(r), args[0].C[0])))
	k(st, r, false)
}

func hTimeUnixMethod(x *Exec, fr *Frame, st *State, site ssa.Instruction, callee *ssa.Function, args []Val, k Kont) {
	used(x, "(time.Time).Unix")
	k(st, Val{T: types.Typ[types.Int64], C: []*Term{timeUnix(args[0])}}, false)
}

// UTC / Local: a fresh Time value denoting the same instant as the receiver
func hTimeSameInstant(name string) stdHandler {
	return func(x *Exec, fr *Frame, st *State, site ssa.Instruction, callee *ssa.Function, args []Val, k Kont) {
		used(x, name)
		r := freshVal(callee.Signature.Results().At(0).Type(), "time")
		x.assumeWF(st, r)
		st.assume(Eq(timeUnix(r), timeUnix(args[0])))
		k(st, r, false)
	}
}

func hDurSeconds(x *Exec, fr *Frame, st *State, site ssa.Instruction, callee *ssa.Function, args []Val, k Kont) {
	used(x, "(time.Duration).Seconds")
	k(st, Val{T: types.Typ[types.Float64], C: []*Term{UF("dursec", BV64, args[0].C[0])}}, false)
}

// durToUint converts dursec(d) to an unsigned integer of the given width (exact for whole seconds in range).
func durToUint(st *State, f *Term, w int) *Term {
	d := f.Args[0]
	r := FreshVar("dursecs", BV(w))
	q := BVBin("bvsdiv", d, bv64(1000000000))
	inRange := And(BVCmp("bvsle", bv64(0), d), Eq(BVBin("bvsrem", d, bv64(1000000000)), bv64(0)))
	if w < 64 {
		inRange = And(inRange, BVCmp("bvslt", q, bv64(1<<uint(w))))
	}
	st.assume(Implies(inRange, Eq(r, Extract(w-1, 0, q))))
	return r
}

func hNewError(x *Exec, fr *Frame, st *State, site ssa.Instruction, callee *ssa.Function, args []Val, k Kont) {
	used(x, "fmt.Errorf")
	ref := st.alloc()
	k(st, Val{T: callee.Signature.Results().At(0).Type(), C: []*Term{IntConst(900001), ref}}, false)
}

func hCtxWithValue(x *Exec, fr *Frame, st *State, site ssa.Instruction, callee *ssa.Function, args []Val, k Kont) {
	x.assumeNote("assumed contract context.WithValue: returns a fresh context c with c.Value(k) == v; every other key delegates to the parent")
	parent, key, v := args[0], args[1], args[2]
	ref := st.alloc()
	res := Val{T: callee.Signature.Results().At(0).Type(), C: []*Term{IntConst(900002), ref}}
	typ, val := ctxValue(res, key)
	st.assume(And(Eq(typ, v.C[0]), Eq(val, v.C[1])))
	// delegation for other key types
	kt := BoundVar("kt!cv", IntSort)
	st.assume(Forall([]*Term{kt}, Implies(Not(Eq(kt, key.C[0])), And(
		Eq(UF("ctxval.typ", IntSort, res.C[0], res.C[1], kt), UF("ctxval.typ", IntSort, parent.C[0], parent.C[1], kt)),
		Eq(UF("ctxval.val", IntSort, res.C[0], res.C[1], kt), UF("ctxval.val", IntSort, parent.C[0], parent.C[1], kt)))),
		[]*Term{UF("ctxval.typ", IntSort, res.C[0], res.C[1], kt)}, []*Term{UF("ctxval.val", IntSort, res.C[0], res.C[1], kt)}))
	k(st, res, false)
}

// containsTerm: exists k. 0 <= k < len(s) && s[k] == v   (the specification of slices.Contains)
func containsTerm(st *State, s Val, v Val) *Term {
	et := s.T.Underlying().(*types.Slice).Elem()
	k := BoundVar("k!contains", BV64)
	var eqs []*Term
	for i, c := range layoutOf(et) {
		name := "[]" + typeKey(et) + "|" + c.Path
		h := st.heapMap(name, ArraySort(IntSort, ArraySort(BV64, c.Sort)))
		e := Select(Select(h, s.Arr()), BVBin("bvadd", s.Off(), k))
		eqs = append(eqs, Eq(e, v.C[i]))
	}
	return Exists([]*Term{k}, And(append([]*Term{BVCmp("bvsle", bv64(0), k), BVCmp("bvslt", k, s.Len())}, eqs...)...))
}

func hSlicesContains(x *Exec, fr *Frame, st *State, site ssa.Instruction, callee *ssa.Function, args []Val, k Kont) {
	x.assumeNote("assumed contract slices.Contains: reports whether v is present in s (exists k: s[k] == v); pure")
	k(st, Val{T: types.Typ[types.Bool], C: []*Term{containsTerm(st, args[0], args[1])}}, false)
}

// strings.HasPrefix(s, p): a deterministic predicate of the two strings; true only when s is at least as long as p.
func hStringsHasPrefix(x *Exec, fr *Frame, st *State, site ssa.Instruction, callee *ssa.Function, args []Val, k Kont) {
	x.assumeNote("assumed contract strings.HasPrefix: pure; HasPrefix(s, p) implies len(s) >= len(p)")
	r := UF("hasprefix", BoolSort, args[0].C[0], args[1].C[0])
	st.assume(Implies(r, BVCmp("bvsge", slen(args[0].C[0]), slen(args[1].C[0]))))
	k(st, Val{T: types.Typ[types.Bool], C: []*Term{r}}, false)
}

// atomic.Bool as a plain cell (sequential semantics; interleavings are outside the verifier): the flag lives in
// the unexported field v of the structure the receiver points to.
func hAtomicBool(op string) stdHandler {
	return func(x *Exec, fr *Frame, st *State, site ssa.Instruction, callee *ssa.Function, args []Val, k Kont) {
		x.assumeNote("assumed contract sync/atomic.Bool." + op + ": sequential load / store of the flag (no interleaving is modelled)")
		x.nilCheck(fr, st, args[0], site.Pos(), "atomic.Bool."+op)
		lv := derefPtr(args[0])
		cell := &LVal{Prefix: lv.Prefix, Ref: lv.Ref, Idx: lv.Idx, Path: lv.Path + ".v", T: types.Typ[types.Uint32]}
		old := x.loadWF(st, cell)
		oldB := Val{T: types.Typ[types.Bool], C: []*Term{Not(Eq(old.C[0], BVConst(0, 32)))}}
		switch op {
		case "Load":
			k(st, oldB, false)
		case "Store", "Swap":
			nv := Ite(args[1].C[0], BVConst(1, 32), BVConst(0, 32))
			x.checkedStore(fr, st, cell, Val{T: types.Typ[types.Uint32], C: []*Term{nv}}, site.Pos())
			if op == "Store" {
				k(st, Val{T: types.NewTuple()}, false)
			} else {
				k(st, oldB, false)
			}
		}
	}
}

// errors.Join(errs...): nil exactly when every element is nil; reads its argument only.
func hErrorsJoin(x *Exec, fr *Frame, st *State, site ssa.Instruction, callee *ssa.Function, args []Val, k Kont) {
	x.assumeNote("assumed contract errors.Join: returns nil exactly when every argument is nil, otherwise a fresh non-nil error; reads its arguments only")
	s := args[0]
	et := s.T.Underlying().(*types.Slice).Elem()
	name := "[]" + typeKey(et) + "|" + layoutOf(et)[0].Path
	h := st.heapMap(name, ArraySort(IntSort, ArraySort(BV64, layoutOf(et)[0].Sort)))
	kk := BoundVar("k!join", BV64)
	elemTyp := Select(Select(h, s.Arr()), BVBin("bvadd", s.Off(), kk))
	allNil := Forall([]*Term{kk}, Implies(And(BVCmp("bvsle", bv64(0), kk), BVCmp("bvslt", kk, s.Len())), Eq(elemTyp, IntConst(0))), []*Term{elemTyp})
	res := Val{T: callee.Signature.Results().At(0).Type(), C: []*Term{FreshVar("join.typ", IntSort), st.alloc()}}
	st.assume(IntCmp(">=", res.C[0], IntConst(0)))
	st.assume(Eq(Eq(res.C[0], IntConst(0)), allNil))
	k(st, Val{T: res.T, C: []*Term{res.C[0], Ite(Eq(res.C[0], IntConst(0)), IntConst(0), res.C[1])}}, false)
}

// hNonNilIface: a constructor returning a non-nil interface value.
func hNonNilIface(name string) stdHandler {
	return func(x *Exec, fr *Frame, st *State, site ssa.Instruction, callee *ssa.Function, args []Val, k Kont) {
		x.assumeNote("assumed contract " + name + ": returns a non-nil value, no side effect")
		res := freshVal(callee.Signature.Results().At(0).Type(), "curve")
		x.assumeWF(st, res)
		st.assume(Not(Eq(res.C[0], IntConst(0))))
		k(st, res, false)
	}
}

// hPtrOrErr: (ptr, err) with err == nil ==> ptr != nil; reads its arguments only.
func hPtrOrErr(name string) stdHandler {
	return func(x *Exec, fr *Frame, st *State, site ssa.Instruction, callee *ssa.Function, args []Val, k Kont) {
		x.assumeNote("assumed contract " + name + ": a nil error comes with a non-nil result; reads its arguments only")
		res := freshVal(callee.Signature.Results(), "parsed")
		x.assumeWF(st, res)
		st.havocAlloc()
		n := len(res.C)
		st.assume(Implies(Eq(res.C[n-2], IntConst(0)), Not(Eq(res.C[0], IntConst(0)))))
		k(st, res, false)
	}
}

func errIs(err, target Val) *Term {
	return UF("errors.is", BoolSort, err.C[0], err.C[1], target.C[0], target.C[1])
}

func hErrorsIs(x *Exec, fr *Frame, st *State, site ssa.Instruction, callee *ssa.Function, args []Val, k Kont) {
	x.assumeNote("assumed contract errors.Is: pure and deterministic in (err, target); false for a nil err with a non-nil target")
	t := errIs(args[0], args[1])
	st.assume(Implies(And(Eq(args[0].C[0], IntConst(0)), Not(Eq(args[1].C[0], IntConst(0)))), Not(t)))
	k(st, Val{T: types.Typ[types.Bool], C: []*Term{t}}, false)
}

// hMutex: Lock/Unlock adjust the ghost variable lockHeld when it is declared (a per-path lock depth).
func hMutex(delta int64) stdHandler {
	return func(x *Exec, fr *Frame, st *State, site ssa.Instruction, callee *ssa.Function, args []Val, k Kont) {
		x.assumeNote("assumed contract sync.Mutex: Lock/Unlock do not panic; the ghost lock depth lockHeld is adjusted")
		x.nilCheck(fr, st, args[0], site.Pos(), "mutex")
		if g, ok := st.ghost["lockHeld"]; ok {
			st.ghost["lockHeld"] = Val{T: g.T, C: []*Term{BVBin("bvadd", g.C[0], BVConst(delta, g.C[0].Sort.Width))}}
		}
		k(st, Val{T: types.NewTuple()}, false)
	}
}

// hGhostCount: the call increments the named ghost counter when it is declared; no other effect.
func hGhostCount(name string) stdHandler {
	return func(x *Exec, fr *Frame, st *State, site ssa.Instruction, callee *ssa.Function, args []Val, k Kont) {
		x.assumeNote("assumed contract " + callee.String() + ": does not panic here; counted in ghost " + name)
		if g, ok := st.ghost[name]; ok {
			st.ghost[name] = Val{T: g.T, C: []*Term{BVBin("bvadd", g.C[0], BVConst(1, g.C[0].Sort.Width))}}
		}
		k(st, Val{T: types.NewTuple()}, false)
	}
}

// hSetDeadline: Set[Read|Write]Deadline(t) on a connection arms an absolute deadline unless t is the zero time;
// the declared ghost variable deadlineArmed (bool) records whether the last call armed or cleared one.
func hSetDeadline(x *Exec, fr *Frame, st *State, site ssa.Instruction, callee *ssa.Function, args []Val, k Kont) {
	x.assumeNote("assumed contract " + callee.String() + ": arms an absolute deadline on the connection unless the argument is the zero time (ghost deadlineArmed); any error")
	if g, ok := st.ghost["deadlineArmed"]; ok && len(args) >= 2 {
		t := args[len(args)-1]
		var nz []*Term
		for _, c := range t.C {
			switch {
			case c.Sort == IntSort:
				nz = append(nz, Not(Eq(c, IntConst(0))))
			case c.Sort.Kind == KBV:
				nz = append(nz, Not(Eq(c, BVConst(0, c.Sort.Width))))
			}
		}
		st.ghost["deadlineArmed"] = Val{T: g.T, C: []*Term{Or(nz...)}}
	}
	res := freshVal(resultType(callee.Signature), "err")
	x.assumeWF(st, res)
	k(st, res, false)
}

// hGhostCountErr: like hGhostCount for a call that returns an (unconstrained) error.
func hGhostCountErr(name string) stdHandler {
	return func(x *Exec, fr *Frame, st *State, site ssa.Instruction, callee *ssa.Function, args []Val, k Kont) {
		x.assumeNote("assumed contract " + callee.String() + ": may block, any error; counted in ghost " + name)
		if g, ok := st.ghost[name]; ok {
			st.ghost[name] = Val{T: g.T, C: []*Term{BVBin("bvadd", g.C[0], BVConst(1, g.C[0].Sort.Width))}}
		}
		res := freshVal(resultType(callee.Signature), "err")
		x.assumeWF(st, res)
		k(st, res, false)
	}
}

// hGhostLatch: the call sets the named ghost variable to 1 when it is declared (a latch, free of overflow,
// for "at least one call happened"); any result.
func hGhostLatch(name string) stdHandler {
	return func(x *Exec, fr *Frame, st *State, site ssa.Instruction, callee *ssa.Function, args []Val, k Kont) {
		x.assumeNote("assumed contract " + callee.String() + ": any result, no effect on module state; latched in ghost " + name)
		if g, ok := st.ghost[name]; ok {
			st.ghost[name] = Val{T: g.T, C: []*Term{BVConst(1, g.C[0].Sort.Width)}}
		}
		res := freshVal(resultType(callee.Signature), "tok")
		x.assumeWF(st, res)
		k(st, res, false)
	}
}

// (*sync.WaitGroup).Wait: counted in ghost wgWaits; the number of context cancellations performed before the
// wait is remembered in ghost cancelsAtWait (so that "wait first, cancel afterwards" can be stated).
func hWgWait(x *Exec, fr *Frame, st *State, site ssa.Instruction, callee *ssa.Function, args []Val, k Kont) {
	x.assumeNote("assumed contract (*sync.WaitGroup).Wait: returns (termination is not decided); counted in ghost wgWaits")
	if g, ok := st.ghost["wgWaits"]; ok {
		st.ghost["wgWaits"] = Val{T: g.T, C: []*Term{BVBin("bvadd", g.C[0], BVConst(1, g.C[0].Sort.Width))}}
	}
	if c, ok := st.ghost["cancelCalls"]; ok {
		if _, ok2 := st.ghost["cancelsAtWait"]; ok2 {
			st.ghost["cancelsAtWait"] = c
		}
	}
	k(st, Val{T: types.NewTuple()}, false)
}

// hNonNilResult: an external interface method returning a non-nil interface value, no side effect.
func hNonNilResult(name string) ifaceHandler {
	return func(x *Exec, fr *Frame, st *State, site ssa.Instruction, recv Val, args []Val, k Kont) {
		x.assumeNote("assumed contract " + name + ": returns a non-nil value, no side effect")
		var sig *types.Signature
		if c, ok := site.(ssa.CallInstruction); ok {
			sig = c.Common().Signature()
		}
		res := freshVal(resultType(sig), "addr")
		x.assumeWF(st, res)
		st.assume(Not(Eq(res.C[0], IntConst(0))))
		k(st, res, false)
	}
}

// errors.As(err, target): when err's dynamic type is exactly the target's element type the value is copied and
// true is returned; otherwise (wrapped errors) the outcome is unconstrained and the target is havocked.
func hErrorsAs(x *Exec, fr *Frame, st *State, site ssa.Instruction, callee *ssa.Function, args []Val, k Kont) {
	x.assumeNote("assumed contract errors.As: copies err into *target and returns true when err's dynamic type is the target's element type; otherwise any outcome, writing only *target")
	err, target := args[0], args[1]
	res := FreshVar("errors.as", BoolSort)
	if target.C[0].Op == "intconst" {
		if pt, ok := typeByID(int(target.C[0].Val.Int64())).(*types.Pointer); ok {
			et := pt.Elem()
			ptr := x.unbox(st, target, pt)
			lv := derefPtr(ptr)
			same := Eq(err.C[0], IntConst(int64(typeID(et))))
			var val Val
			if _, isIface := et.Underlying().(*types.Interface); isIface {
				val = Val{T: et, C: err.C}
			} else {
				val = x.unbox(st, err, et)
			}
			hv := freshVal(et, "as")
			x.assumeWF(st, hv)
			nv := Val{T: et}
			for i := range val.C {
				nv.C = append(nv.C, Ite(same, val.C[i], hv.C[i]))
			}
			x.checkedStore(fr, st, lv, nv, site.Pos())
			st.assume(Implies(same, res))
			st.assume(Implies(Eq(err.C[0], IntConst(0)), Not(res)))
		}
	}
	k(st, Val{T: types.Typ[types.Bool], C: []*Term{res}}, false)
}
