package main

// Element-level model of the codec layer (L3, property C01/C18 "mirror" lemmas).
//
// The hand-written codecs of the library (TagEncodeTTLV / TagDecodeTTLV methods) are written against
// ttlv.Encoder / ttlv.Decoder, which in turn drive a `writer` / `reader` interface (binary, XML, JSON,
// text). For the mirror lemmas the real Encoder/Decoder methods are executed symbolically and bottom out in
// a MODEL writer/reader: an abstract tape of elements (tag, TTLV kind, Go value), kept at the meta level in
// the path state. The parts of the library that work by reflection (Encoder.encodeValue,
// Decoder.decodeValue, getTagForValue) are out of the verifier's reach and are replaced by the ASSUMED
// CONTRACTS implemented below, which follow ttlv/encoder.go encodeFunc / buildStructEncodeFunc and
// ttlv/decoder.go decodeFunc case by case over the static Go type. Every run that uses them lists them.

import (
	"fmt"
	"os"
	"go/types"
	"reflect"
	"strconv"
	"strings"

	"golang.org/x/tools/go/ssa"
)

type TapeElem struct {
	Tag  *Term // BV64
	Kind string // Integer, LongInteger, BigInteger, Enum, Bool, TextString, ByteString, DateTime, Interval, Bitmask, Struct, Opaque, Repeated, Dynamic
	V    Val
	T    types.Type // Go type of V for Opaque / Repeated / Dynamic
	Kids []TapeElem // Struct
	Snap *State     // Opaque: the state at emission; a later expansion reads the memory as it was then
}

type tapeCursor struct {
	elems []TapeElem
	pos   int
}

const (
	modelWriterBase = 800000000
	tagDynamic      = 0xFFFFFE // stands for "default tag of a dynamic type not known statically" on both sides
)

var kindCode = map[string]int64{"Struct": 1, "Integer": 2, "LongInteger": 3, "BigInteger": 4, "Enum": 5, "Bool": 6, "TextString": 7, "ByteString": 8, "DateTime": 9, "Interval": 10, "Bitmask": 2, "Opaque": 1, "Repeated": 1, "Dynamic": 1}

var modelWriterT, modelReaderT types.Type

func init() {
	modelWriterT = types.NewPointer(types.NewNamed(types.NewTypeName(0, nil, "gocvModelWriter", nil), types.NewStruct(nil, nil), nil))
	modelReaderT = types.NewPointer(types.NewNamed(types.NewTypeName(0, nil, "gocvModelReader", nil), types.NewStruct(nil, nil), nil))
}

func (x *Exec) newModelID() int {
	x.modelSeq++
	return modelWriterBase + x.modelSeq
}

func (st *State) tapeAppend(id int, e TapeElem) {
	if st.tapes == nil {
		st.tapes = map[int][]TapeElem{}
	}
	old := st.tapes[id]
	st.tapes[id] = append(old[:len(old):len(old)], e)
}

func (x *Exec) ttlvPkg() *ssa.Package {
	return x.prog.ImportedPackage(x.modulePath + "/ttlv")
}

func (x *Exec) ttlvType(name string) types.Type {
	p := x.ttlvPkg()
	if p == nil {
		return nil
	}
	if o := p.Pkg.Scope().Lookup(name); o != nil {
		return o.Type()
	}
	return nil
}

func (x *Exec) methodFn(t types.Type, name string) *ssa.Function {
	ms := x.prog.MethodSets.MethodSet(t)
	for i := 0; i < ms.Len(); i++ {
		if ms.At(i).Obj().Name() == name {
			return x.prog.MethodValue(ms.At(i))
		}
	}
	return nil
}

func (x *Exec) modelIface(kind string, id int) Val {
	t := modelWriterT
	it := x.ttlvType("writer")
	if kind == "reader" {
		t = modelReaderT
		it = x.ttlvType("reader")
	}
	return Val{T: it, C: []*Term{IntConst(int64(typeID(t))), IntConst(int64(id))}}
}

func modelIDOf(recv Val, t types.Type) (int, bool) {
	if len(recv.C) != 2 || recv.C[0].Op != "intconst" || recv.C[1].Op != "intconst" {
		return 0, false
	}
	if int(recv.C[0].Val.Int64()) != typeID(t) {
		return 0, false
	}
	return int(recv.C[1].Val.Int64()), true
}

var errorT = types.Universe.Lookup("error").Type()

func nilErr() Val { return zeroVal(errorT) }
func (st *State) newErr() Val {
	return Val{T: errorT, C: []*Term{IntConst(900001), st.alloc()}}
}

// fork2 continues with cond assumed and with its negation assumed (skipping syntactically decided sides).
func fork2(st *State, cond *Term, yes, no func(st *State)) {
	if cond == True {
		yes(st)
		return
	}
	if cond == False {
		no(st)
		return
	}
	switch st.decided(cond) {
	case 1:
		yes(st)
		return
	case -1:
		no(st)
		return
	}
	if os.Getenv("GOCV_TRACE_FORKS") != "" {
		fmt.Fprintf(os.Stderr, "fork2 %s\n", cond.String())
	}
	s1 := st.clone()
	s1.assume(cond)
	yes(s1)
	st.assume(Not(cond))
	no(st)
}

func callSig(site ssa.Instruction) *types.Signature {
	if c, ok := site.(ssa.CallInstruction); ok {
		return c.Common().Signature()
	}
	return nil
}

func resultVal(sig *types.Signature, vs ...Val) Val {
	switch sig.Results().Len() {
	case 0:
		return Val{T: types.NewTuple()}
	case 1:
		v := vs[0]
		v.T = sig.Results().At(0).Type()
		return v
	}
	return mkTuple(sig.Results(), vs)
}

const tapeAssumption = "assumed contract (element-level model of the writer/reader interfaces): a writer appends one element (tag, TTLV type, value) per call and a structure holds the elements its callback wrote; a reader over the same elements returns the value of the current element when tag and TTLV type match (else an error, without advancing) and a structure reader hands its callback a reader over exactly the children"

// modelInvoke handles interface calls on the model writer / reader. Returns false when recv is not one.
func (x *Exec) modelInvoke(fr *Frame, st *State, site ssa.Instruction, cc *ssa.CallCommon, recv Val, args []Val, k Kont) bool {
	name := cc.Method.Name()
	sig := cc.Signature()
	if id, ok := modelIDOf(recv, modelWriterT); ok {
		x.assumeNote(tapeAssumption)
		switch name {
		case "Integer", "LongInteger", "BigInteger", "Bool", "TextString", "ByteString", "DateTime", "Interval":
			st.tapeAppend(id, TapeElem{Tag: args[0].C[0], Kind: name, V: args[1]})
			k(st, resultVal(sig), false)
		case "Enum", "Bitmask":
			st.tapeAppend(id, TapeElem{Tag: args[1].C[0], Kind: name, V: args[2]})
			k(st, resultVal(sig), false)
		case "Struct":
			child := x.newModelID()
			if st.tapes == nil {
				st.tapes = map[int][]TapeElem{}
			}
			st.tapes[child] = nil
			tag := args[0].C[0]
			x.callValue(fr, st, site, nil, args[1], []Val{x.modelIface("writer", child)}, func(st2 *State, _ Val, panicked bool) {
				if panicked {
					k(st2, Val{}, true)
					return
				}
				st2.tapeAppend(id, TapeElem{Tag: tag, Kind: "Struct", Kids: st2.tapes[child]})
				k(st2, resultVal(sig), false)
			})
		case "Clear":
			if st.tapes != nil {
				st.tapes[id] = nil
			}
			k(st, resultVal(sig), false)
		default:
			r := freshVal(resultType(sig), "modelw")
			x.assumeWF(st, r)
			k(st, r, false)
		}
		return true
	}
	if id, ok := modelIDOf(recv, modelReaderT); ok {
		x.assumeNote(tapeAssumption)
		cur := st.cursors[id]
		if cur == nil {
			cur = &tapeCursor{}
		}
		var el *TapeElem
		if cur.pos < len(cur.elems) {
			el = &cur.elems[cur.pos]
		}
		advance := func(s *State) {
			c := *s.cursors[id]
			c.pos++
			s.setCursor(id, &c)
		}
		switch name {
		case "Tag":
			t := bv64(0)
			if el != nil {
				t = el.Tag
			}
			k(st, Val{T: types.Typ[types.Int], C: []*Term{t}}, false)
		case "Type":
			c := int64(0)
			if el != nil {
				c = kindCode[el.Kind]
			}
			rt := sig.Results().At(0).Type()
			w, _, _ := isIntType(rt)
			if w == 0 {
				w = 64
			}
			k(st, Val{T: rt, C: []*Term{BVConst(c, w)}}, false)
		case "Next":
			if el != nil {
				advance(st)
			}
			k(st, nilErr(), false)
		case "Integer", "LongInteger", "BigInteger", "Bool", "TextString", "ByteString", "DateTime", "Interval", "Enum", "Bitmask":
			tag := args[len(args)-1].C[0]
			zero := zeroVal(sig.Results().At(0).Type())
			if el == nil || el.Kind != name {
				k(st, mkTuple(sig.Results(), []Val{zero, st.newErr()}), false)
				return true
			}
			e := *el
			fork2(st, Eq(e.Tag, tag), func(s *State) {
				advance(s)
				v := e.V
				k(s, mkTuple(sig.Results(), []Val{v, nilErr()}), false)
			}, func(s *State) {
				k(s, mkTuple(sig.Results(), []Val{zero, s.newErr()}), false)
			})
		case "Struct":
			tag := args[0].C[0]
			if el == nil {
				k(st, st.newErr(), false)
				return true
			}
			e := *el
			withKids := func(s *State, kids []TapeElem) {
				fork2(s, Eq(e.Tag, tag), func(s *State) {
					child := x.newModelID()
					s.setCursor(child, &tapeCursor{elems: kids})
					x.callValue(fr, s, site, nil, args[1], []Val{x.modelIface("reader", child)}, func(s2 *State, res Val, panicked bool) {
						if panicked {
							k(s2, Val{}, true)
							return
						}
						cc := s2.cursors[child]
						left := cc != nil && cc.pos < len(cc.elems)
						fork2(s2, Eq(res.C[0], IntConst(0)), func(s3 *State) {
							if left {
								// a successful structure read that leaves children unread: recorded for the
								// "nothing dropped" clause of the mirror lemmas
								if g, ok := s3.ghost["tapeDropped"]; ok {
									s3.ghost["tapeDropped"] = Val{T: g.T, C: []*Term{True}}
								}
							}
							advance(s3)
							k(s3, nilErr(), false)
						}, func(s3 *State) {
							k(s3, res, false)
						})
					})
				}, func(s *State) {
					k(s, s.newErr(), false)
				})
			}
			switch e.Kind {
			case "Struct":
				withKids(st, e.Kids)
			case "Opaque":
				// a structure emitted by the reflective encoder: expand it one level on demand, reading the
				// memory as it was when the element was emitted (the decoder may have written since)
				tmpID := x.newModelID()
				base := st
				tmp := base.clone()
				if e.Snap != nil {
					tmp.heap = make(map[string]*Term, len(e.Snap.heap))
					for hk, hv := range e.Snap.heap {
						tmp.heap[hk] = hv
					}
				}
				tmp.tapes = map[int][]TapeElem{}
				n0 := len(base.pc)
				x.structPlan(fr, tmp, site, tmpID, e.T, e.V, func(s *State, panicked bool) {
					real := base.clone()
					for _, c := range s.pc[n0:] {
						real.assume(c)
					}
					real.allocW = s.allocW
					if panicked {
						k(real, Val{}, true)
						return
					}
					withKids(real, s.tapes[tmpID])
				})
			default:
				k(st, st.newErr(), false)
			}
		default:
			r := freshVal(resultType(sig), "modelr")
			x.assumeWF(st, r)
			k(st, r, false)
		}
		return true
	}
	return false
}

func tapeString(es []TapeElem) string {
	var parts []string
	for _, e := range es {
		s := fmt.Sprintf("%s@%s", e.Kind, e.Tag)
		if e.Kind == "Struct" {
			s += "{" + tapeString(e.Kids) + "}"
		}
		parts = append(parts, s)
	}
	return strings.Join(parts, " ")
}

func (st *State) setCursor(id int, c *tapeCursor) {
	n := make(map[int]*tapeCursor, len(st.cursors)+1)
	for k, v := range st.cursors {
		n[k] = v
	}
	n[id] = c
	st.cursors = n
}

// ---------------------------------------------------------------------------
// lemma helpers declared in /repo/ttlv/zz_verif_lemmas.go (bodies are never run)

// mkCodec builds an Encoder / Decoder value {fresh extension with no version, model writer/reader}.
func (x *Exec) mkCodec(st *State, typeName string, io Val) Val {
	t := x.ttlvType(typeName)
	extT := x.ttlvType("extension")
	ref := st.alloc()
	z := zeroVal(extT)
	st.store(objLVal(extT, ref), z, "")
	x.dropLastWrites(st, len(z.C))
	return Val{T: t, C: append([]*Term{ref}, io.C...)}
}

func hVerifModelEncoder(x *Exec, fr *Frame, st *State, site ssa.Instruction, callee *ssa.Function, args []Val, k Kont) {
	id := x.newModelID()
	if st.tapes == nil {
		st.tapes = map[int][]TapeElem{}
	}
	st.tapes[id] = nil
	k(st, x.mkCodec(st, "Encoder", x.modelIface("writer", id)), false)
}

func (x *Exec) encoderWriterID(st *State, enc Val) (int, bool) {
	lv := derefPtr(enc)
	w := x.loadWF(st, &LVal{Prefix: lv.Prefix, Ref: lv.Ref, Idx: lv.Idx, Path: lv.Path + ".w", T: x.ttlvType("writer")})
	return modelIDOf(w, modelWriterT)
}

func hVerifModelDecoder(x *Exec, fr *Frame, st *State, site ssa.Instruction, callee *ssa.Function, args []Val, k Kont) {
	wid, ok := x.encoderWriterID(st, args[0])
	if !ok {
		lv := derefPtr(args[0])
		w := x.loadWF(st, &LVal{Prefix: lv.Prefix, Ref: lv.Ref, Idx: lv.Idx, Path: lv.Path + ".w", T: x.ttlvType("writer")})
		var ns []string
		for n := range x.notes {
			ns = append(ns, n)
		}
		x.fail("VerifModelDecoder: the encoder does not write to a model tape (w = %s; notes: %s)", w.String(), strings.Join(ns, " | "))
		return
	}
	id := x.newModelID()
	st.setCursor(id, &tapeCursor{elems: st.tapes[wid]})
	k(st, x.mkCodec(st, "Decoder", x.modelIface("reader", id)), false)
}

func hVerifTapeEnd(x *Exec, fr *Frame, st *State, site ssa.Instruction, callee *ssa.Function, args []Val, k Kont) {
	lv := derefPtr(args[0])
	r := x.loadWF(st, &LVal{Prefix: lv.Prefix, Ref: lv.Ref, Idx: lv.Idx, Path: lv.Path + ".r", T: x.ttlvType("reader")})
	id, ok := modelIDOf(r, modelReaderT)
	if !ok {
		x.fail("VerifTapeEnd: the decoder does not read a model tape")
		return
	}
	c := st.cursors[id]
	end := c == nil || c.pos >= len(c.elems)
	if os.Getenv("GOCV_TRACE_CONTRACTS") != "" && c != nil {
		fmt.Fprintf(os.Stderr, "tape end=%v pos=%d: %s\n", end, c.pos, tapeString(c.elems))
	}
	k(st, Val{T: types.Typ[types.Bool], C: []*Term{BoolT(end)}}, false)
}

// newModelEncoder allocates an Encoder object bound to the tape `wid` (used to run real TagEncodeTTLV methods
// when a structure emitted by reflection is expanded).
func (x *Exec) newModelEncoder(fr *Frame, st *State, site ssa.Instruction, wid int, k func(st *State, enc Val)) {
	encT := x.ttlvType("Encoder")
	ev := x.mkCodec(st, "Encoder", x.modelIface("writer", wid))
	ref := st.alloc()
	st.store(objLVal(encT, ref), ev, "")
	x.dropLastWrites(st, len(ev.C))
	k(st, Val{T: types.NewPointer(encT), C: []*Term{ref}})
}

// ---------------------------------------------------------------------------
// reflection

func hReflectValueOf(x *Exec, fr *Frame, st *State, site ssa.Instruction, callee *ssa.Function, args []Val, k Kont) {
	rt := callee.Signature.Results().At(0).Type()
	lay := layoutOf(rt)
	v := zeroVal(rt)
	if len(lay) >= 2 && lay[0].Sort == IntSort && lay[1].Sort == IntSort {
		// (dynamic type, payload) of the interface value travel in the first two components
		v.C = append([]*Term{args[0].C[0], args[0].C[1]}, v.C[2:]...)
		x.assumeNote("assumed contract reflect.ValueOf: the result denotes the dynamic type and value of its argument (only its use by the ttlv reflective plan is modelled)")
		k(st, v, false)
		return
	}
	r := freshVal(rt, "reflectvalue")
	k(st, r, false)
}

func (x *Exec) reflectedIface(rv Val) (Val, types.Type, bool) {
	if len(rv.C) < 2 || rv.C[0].Op != "intconst" {
		return Val{}, nil, false
	}
	t := typeByID(int(rv.C[0].Val.Int64()))
	if t == nil {
		return Val{}, nil, false
	}
	return Val{T: types.NewInterfaceType(nil, nil), C: []*Term{rv.C[0], rv.C[1]}}, t, true
}

const reflAssumption = "assumed contract (reflective plan, ttlv/encoder.go encodeFunc and ttlv/decoder.go decodeFunc, followed case by case over the static Go type): pointers and interfaces are skipped when nil; enumeration / bit-mask / time / duration / big-integer / basic kinds map to their TTLV type; []byte is a byte string; other slices repeat the element; a struct emits its exported fields in declaration order under the tag of its `ttlv` annotation, field name or field type, honouring omitempty and version ranges; types with TagEncodeTTLV / TagDecodeTTLV use those methods. A structure handed to reflection is one opaque element that a reflective decoder of the identical type reads back as the same value."

func hEncodeValue(x *Exec, fr *Frame, st *State, site ssa.Instruction, callee *ssa.Function, args []Val, k Kont) {
	enc, tag, rv := args[0], args[1].C[0], args[2]
	iv, t, ok := x.reflectedIface(rv)
	wid, ok2 := x.encoderWriterID(st, enc)
	if !ok || !ok2 {
		x.note("Encoder.encodeValue on a value or writer outside the element model: heap havocked")
		x.havocCall(fr, st, site, callee.Signature, true, k)
		return
	}
	x.assumeNote(reflAssumption)
	v := x.unbox(st, iv, t)
	x.modelEncode(fr, st, site, wid, tag, t, v, 0, func(s *State, panicked bool) {
		k(s, Val{T: types.NewTuple()}, panicked)
	})
}

func hGetTagForValue(x *Exec, fr *Frame, st *State, site ssa.Instruction, callee *ssa.Function, args []Val, k Kont) {
	sig := callee.Signature
	_, t, ok := x.reflectedIface(args[0])
	if !ok {
		x.assumeNote(reflAssumption)
		k(st, mkTuple(sig.Results(), []Val{{T: types.Typ[types.Int], C: []*Term{bv64(tagDynamic)}}, nilErr()}), false)
		return
	}
	x.assumeNote(reflAssumption)
	tag, found := x.defaultTag(t)
	if !found {
		k(st, mkTuple(sig.Results(), []Val{{T: types.Typ[types.Int], C: []*Term{bv64(0)}}, st.newErr()}), false)
		return
	}
	k(st, mkTuple(sig.Results(), []Val{{T: types.Typ[types.Int], C: []*Term{tag}}, nilErr()}), false)
}

// defaultTag follows getTagForType: pointers and slices are looked through; enumerations and bit masks have
// their registered tag; otherwise the tag registered under the type's name. An interface type has no static
// default tag: its dynamic type decides (tagDynamic on both sides).
func (x *Exec) defaultTag(t types.Type) (*Term, bool) {
	for {
		switch u := t.Underlying().(type) {
		case *types.Pointer:
			t = u.Elem()
			continue
		case *types.Slice:
			t = u.Elem()
			continue
		case *types.Array:
			t = u.Elem()
			continue
		}
		break
	}
	nt, ok := t.(*types.Named)
	if !ok {
		return nil, false
	}
	reg := x.registry()
	if reg != nil {
		key := shortType(nt)
		if v, ok := reg.typeTags[key]; ok {
			return bv64(v), true
		}
		if v, ok := reg.tagByName[nt.Obj().Name()]; ok {
			return bv64(v), true
		}
	}
	if _, isIface := t.Underlying().(*types.Interface); isIface {
		return bv64(tagDynamic), true
	}
	return nil, false
}

type regIndex struct {
	tagByName map[string]int64
	typeTags  map[string]int64 // enum / mask Go type -> tag
	enumTypes map[string]bool
	maskTypes map[string]bool
}

func (x *Exec) registry() *regIndex {
	if x.regIdx != nil || x.regTried {
		return x.regIdx
	}
	x.regTried = true
	if currentLoaded == nil {
		return nil
	}
	reg, err := extractRegistry(currentLoaded)
	if err != nil || reg == nil {
		return nil
	}
	ri := &regIndex{tagByName: map[string]int64{}, typeTags: map[string]int64{}, enumTypes: map[string]bool{}, maskTypes: map[string]bool{}}
	for _, t := range reg.Tags {
		ri.tagByName[t.Name] = t.Value
	}
	for _, e := range reg.Enums {
		ri.typeTags[e.GoType] = e.Tag
		ri.enumTypes[e.GoType] = true
	}
	for _, m := range reg.Masks {
		ri.typeTags[m.GoType] = m.Tag
		ri.maskTypes[m.GoType] = true
	}
	x.regIdx = ri
	return ri
}

func (x *Exec) isEnumType(t types.Type) bool {
	nt, ok := t.(*types.Named)
	if !ok {
		return false
	}
	if r := x.registry(); r != nil {
		return r.enumTypes[shortType(nt)]
	}
	return false
}

func (x *Exec) isMaskType(t types.Type) bool {
	nt, ok := t.(*types.Named)
	if !ok {
		return false
	}
	if r := x.registry(); r != nil {
		return r.maskTypes[shortType(nt)]
	}
	return false
}

func isNamed(t types.Type, pkg, name string) bool {
	nt, ok := t.(*types.Named)
	return ok && nt.Obj().Pkg() != nil && nt.Obj().Pkg().Path() == pkg && nt.Obj().Name() == name
}

func (x *Exec) implementsIface(t types.Type, iname string) bool {
	it := x.ttlvType(iname)
	if it == nil {
		return false
	}
	return types.Implements(t, it.Underlying().(*types.Interface))
}

// isZeroTerm: reflect.Value.IsZero for a flat value (strings: length zero).
func (x *Exec) isZeroTerm(st *State, t types.Type, v Val) *Term {
	if b, ok := t.Underlying().(*types.Basic); ok && b.Info()&types.IsString != 0 {
		return Eq(slen(v.C[0]), bv64(0))
	}
	if _, ok := t.Underlying().(*types.Slice); ok {
		return Eq(v.Arr(), IntConst(0)) // a nil slice; an empty non-nil slice is not "zero" for reflect
	}
	z := zeroVal(t)
	var cs []*Term
	for i := range v.C {
		if i < len(z.C) {
			cs = append(cs, Eq(v.C[i], z.C[i]))
		}
	}
	return And(cs...)
}

// modelEncode: assumed contract of the reflective encoder for a value v of static type t (encodeFunc).
func (x *Exec) modelEncode(fr *Frame, st *State, site ssa.Instruction, wid int, tag *Term, t types.Type, v Val, depth int, k func(st *State, panicked bool)) {
	if depth > 6 {
		st.tapeAppend(wid, TapeElem{Tag: tag, Kind: "Opaque", V: v, T: t})
		k(st, false)
		return
	}
	pt := types.NewPointer(t)
	_, isIface := t.Underlying().(*types.Interface)
	callEnc := func(s *State, recv Val, fn *ssa.Function) {
		x.newModelEncoder(fr, s, site, wid, func(s2 *State, enc Val) {
			x.callStatic(fr, s2, site, fn, []Val{recv, enc, {T: types.Typ[types.Int], C: []*Term{tag}}}, nil, func(s3 *State, _ Val, panicked bool) {
				k(s3, panicked)
			})
		})
	}
	switch {
	case !isIface && x.implementsIface(t, "TagEncodable"):
		fn := x.methodFn(t, "TagEncodeTTLV")
		if _, isPtr := t.Underlying().(*types.Pointer); isPtr {
			fork2(st, Eq(v.C[0], IntConst(0)), func(s *State) { k(s, false) }, func(s *State) { callEnc(s, v, fn) })
			return
		}
		callEnc(st, v, fn)
		return
	case !isIface && x.implementsIface(pt, "TagEncodable"):
		if v.LV == nil {
			x.note("reflective encoding of a non-addressable %s whose pointer type has TagEncodeTTLV: the library panics here; treated as one opaque element", typeKey(t))
			st.tapeAppend(wid, TapeElem{Tag: tag, Kind: "Opaque", V: v, T: t})
			k(st, false)
			return
		}
		callEnc(st, ptrTo(v.LV), x.methodFn(pt, "TagEncodeTTLV"))
		return
	case x.isEnumType(t):
		st.tapeAppend(wid, TapeElem{Tag: tag, Kind: "Enum", V: Val{T: types.Typ[types.Uint32], C: v.C}})
		k(st, false)
		return
	case x.isMaskType(t):
		st.tapeAppend(wid, TapeElem{Tag: tag, Kind: "Bitmask", V: Val{T: types.Typ[types.Int32], C: v.C}})
		k(st, false)
		return
	case isNamed(t, "time", "Duration"):
		st.tapeAppend(wid, TapeElem{Tag: tag, Kind: "Interval", V: v})
		k(st, false)
		return
	case isNamed(t, "time", "Time"):
		st.tapeAppend(wid, TapeElem{Tag: tag, Kind: "DateTime", V: v})
		k(st, false)
		return
	case isNamed(t, "math/big", "Int"):
		p := Val{T: pt, C: []*Term{st.alloc()}}
		if v.LV != nil {
			p = ptrTo(v.LV)
		}
		st.tapeAppend(wid, TapeElem{Tag: tag, Kind: "BigInteger", V: p})
		k(st, false)
		return
	}
	switch u := t.Underlying().(type) {
	case *types.Pointer:
		fork2(st, Eq(v.C[0], IntConst(0)), func(s *State) { k(s, false) }, func(s *State) {
			lv := derefPtr(v)
			ev := x.loadWF(s, lv)
			if _, isPtr := u.Elem().Underlying().(*types.Pointer); !isPtr {
				ev.LV = lv
			}
			x.modelEncode(fr, s, site, wid, tag, u.Elem(), ev, depth+1, k)
		})
	case *types.Basic:
		w, _, isInt := isIntType(t)
		switch {
		case u.Info()&types.IsString != 0:
			st.tapeAppend(wid, TapeElem{Tag: tag, Kind: "TextString", V: Val{T: types.Typ[types.String], C: v.C}})
		case u.Kind() == types.Bool:
			st.tapeAppend(wid, TapeElem{Tag: tag, Kind: "Bool", V: Val{T: types.Typ[types.Bool], C: v.C}})
		case isInt && (u.Kind() == types.Int64 || u.Kind() == types.Uint32 || u.Kind() == types.Int || u.Kind() == types.Uint64):
			c := v.C[0]
			if w < 64 {
				c = ZeroExt(c, 64)
			}
			st.tapeAppend(wid, TapeElem{Tag: tag, Kind: "LongInteger", V: Val{T: types.Typ[types.Int64], C: []*Term{c}}})
		case isInt:
			c := v.C[0]
			_, signed, _ := isIntType(t)
			if w < 32 {
				if signed {
					c = SignExt(c, 32)
				} else {
					c = ZeroExt(c, 32)
				}
			}
			st.tapeAppend(wid, TapeElem{Tag: tag, Kind: "Integer", V: Val{T: types.Typ[types.Int32], C: []*Term{c}}})
		default:
			st.tapeAppend(wid, TapeElem{Tag: tag, Kind: "Opaque", V: v, T: t})
		}
		k(st, false)
	case *types.Slice:
		if b, ok := u.Elem().Underlying().(*types.Basic); ok && b.Kind() == types.Uint8 {
			st.tapeAppend(wid, TapeElem{Tag: tag, Kind: "ByteString", V: Val{T: types.NewSlice(types.Typ[types.Uint8]), C: v.C}})
			k(st, false)
			return
		}
		fork2(st, Eq(v.Len(), bv64(0)), func(s *State) { k(s, false) }, func(s *State) {
			s.tapeAppend(wid, TapeElem{Tag: tag, Kind: "Repeated", V: v, T: t})
			k(s, false)
		})
	case *types.Struct:
		st.tapeAppend(wid, TapeElem{Tag: tag, Kind: "Opaque", V: v, T: t, Snap: st.clone()})
		k(st, false)
	case *types.Interface:
		fork2(st, Eq(v.C[0], IntConst(0)), func(s *State) { k(s, false) }, func(s *State) {
			if v.C[0].Op == "intconst" {
				if dt := typeByID(int(v.C[0].Val.Int64())); dt != nil {
					x.modelEncode(fr, s, site, wid, tag, dt, x.unbox(s, v, dt), depth+1, k)
					return
				}
			}
			s.tapeAppend(wid, TapeElem{Tag: tag, Kind: "Dynamic", V: v, T: t})
			k(s, false)
		})
	default:
		st.tapeAppend(wid, TapeElem{Tag: tag, Kind: "Opaque", V: v, T: t})
		k(st, false)
	}
}

type fieldPlan struct {
	idx       int
	tag       int64 // 0: dynamic (interface field without static tag)
	omitempty bool
	versioned bool
}

// structFields follows buildStructEncodeFunc / buidStructDecodeFunc: exported fields, `ttlv` annotation.
func (x *Exec) structFields(t types.Type) ([]fieldPlan, error) {
	stt, ok := t.Underlying().(*types.Struct)
	if !ok {
		return nil, fmt.Errorf("not a struct: %s", typeKey(t))
	}
	var out []fieldPlan
	for i := 0; i < stt.NumFields(); i++ {
		f := stt.Field(i)
		if !f.Exported() {
			continue
		}
		ann, _ := reflect.StructTag(stt.Tag(i)).Lookup("ttlv")
		parts := strings.Split(ann, ",")
		if parts[0] == "-" {
			continue
		}
		fp := fieldPlan{idx: i}
		for _, p := range parts[1:] {
			switch {
			case p == "omitempty":
				fp.omitempty = true
			case strings.HasPrefix(p, "version="):
				fp.versioned = true
			}
		}
		switch {
		case parts[0] == "":
			if r := x.registry(); r != nil {
				if v, ok := r.tagByName[f.Name()]; ok {
					fp.tag = v
					break
				}
			}
			if tg, ok := x.defaultTag(f.Type()); ok && tg.Op == "bvconst" && tg.Val.Int64() != tagDynamic {
				fp.tag = tg.Val.Int64()
			} else if _, isIface := f.Type().Underlying().(*types.Interface); !isIface {
				return nil, fmt.Errorf("missing tag for field %s of %s", f.Name(), typeKey(t))
			}
		case strings.HasPrefix(parts[0], "0x"):
			n, err := strconv.ParseInt(parts[0][2:], 16, 64)
			if err != nil {
				return nil, err
			}
			fp.tag = n
		default:
			r := x.registry()
			if r == nil {
				return nil, fmt.Errorf("no tag table")
			}
			v, ok := r.tagByName[parts[0]]
			if !ok {
				return nil, fmt.Errorf("unknown tag name %q", parts[0])
			}
			fp.tag = v
		}
		out = append(out, fp)
	}
	return out, nil
}

// structPlan emits the children of a struct value of type t onto tape wid (buildStructEncodeFunc).
func (x *Exec) structPlan(fr *Frame, st *State, site ssa.Instruction, wid int, t types.Type, v Val, k func(st *State, panicked bool)) {
	x.assumeNote(reflAssumption)
	if st.tapes == nil {
		st.tapes = map[int][]TapeElem{}
	}
	if _, ok := st.tapes[wid]; !ok {
		st.tapes[wid] = nil
	}
	fields, err := x.structFields(t)
	if err != nil {
		x.note("reflective struct plan of %s: %v (the library panics when it builds this plan)", typeKey(t), err)
		k(st, false)
		return
	}
	stt := t.Underlying().(*types.Struct)
	var rec func(s *State, i int)
	rec = func(s *State, i int) {
		if i == len(fields) {
			k(s, false)
			return
		}
		fp := fields[i]
		f := stt.Field(fp.idx)
		fv := fieldVal(v, fp.idx)
		fv.T = f.Type()
		if _, isPtr := f.Type().Underlying().(*types.Pointer); v.LV != nil && !isPtr {
			// where this (addressable) field lives; for a pointer value LV would mean its target instead
			fv.LV = &LVal{Prefix: v.LV.Prefix, Ref: v.LV.Ref, Idx: v.LV.Idx, Path: v.LV.Path + "." + f.Name(), T: f.Type()}
		}
		next := func(s *State, panicked bool) {
			if panicked {
				k(s, true)
				return
			}
			rec(s, i+1)
		}
		emit := func(s *State) {
			tag := bv64(fp.tag)
			if fp.tag == 0 {
				tag = bv64(tagDynamic)
			}
			x.modelEncode(fr, s, site, wid, tag, f.Type(), fv, 1, next)
		}
		gate := func(s *State) {
			if fp.omitempty {
				z := x.isZeroTerm(s, f.Type(), fv)
				fork2(s, z, func(s *State) { next(s, false) }, emit)
				return
			}
			emit(s)
		}
		if fp.versioned {
			// the protocol version of the message is not part of the element model: a version-gated field
			// may or may not be emitted
			c := FreshVar("vergate", BoolSort)
			fork2(s, c, gate, func(s *State) { next(s, false) })
			return
		}
		gate(s)
	}
	rec(st, 0)
}

// hDecodeValue: assumed contract of the reflective decoder for a destination of static type *T (decodeFunc).
func hDecodeValue(x *Exec, fr *Frame, st *State, site ssa.Instruction, callee *ssa.Function, args []Val, k Kont) {
	dec, tag, rv := args[0], args[1].C[0], args[2]
	iv, t, ok := x.reflectedIface(rv)
	lvd := derefPtr(dec)
	r := x.loadWF(st, &LVal{Prefix: lvd.Prefix, Ref: lvd.Ref, Idx: lvd.Idx, Path: lvd.Path + ".r", T: x.ttlvType("reader")})
	rid, ok2 := modelIDOf(r, modelReaderT)
	pt, isPtr := t, false
	if ok {
		_, isPtr = t.Underlying().(*types.Pointer)
	}
	if !ok || !ok2 || !isPtr {
		x.note("Decoder.decodeValue outside the element model (type known %v, model reader %v [%s], pointer %v, rv %s): heap havocked", ok, ok2, r.String(), isPtr, rv.String())
		x.havocCall(fr, st, site, callee.Signature, true, k)
		return
	}
	x.assumeNote(reflAssumption)
	dest := x.unbox(st, iv, pt)
	x.modelDecode(fr, st, site, dec, rid, tag, pt.Underlying().(*types.Pointer).Elem(), derefPtr(dest), 0, func(s *State, err Val, panicked bool) {
		k(s, err, panicked)
	})
}

func (x *Exec) curElem(st *State, rid int) *TapeElem {
	c := st.cursors[rid]
	if c == nil || c.pos >= len(c.elems) {
		return nil
	}
	e := c.elems[c.pos]
	return &e
}

func (x *Exec) advanceCursor(st *State, rid int) {
	c := *st.cursors[rid]
	c.pos++
	st.setCursor(rid, &c)
}

func (x *Exec) storeDest(fr *Frame, st *State, site ssa.Instruction, lv *LVal, v Val) {
	v.T = lv.T
	if os.Getenv("GOCV_TRACE_CONTRACTS") != "" {
		fmt.Fprintf(os.Stderr, "storeDest %s ref=%s path=%s idx=%v := %s\n", lv.Prefix, lv.Ref, lv.Path, lv.Idx, v.String())
	}
	x.checkedStore(fr, st, lv, v, site.Pos())
}

func (x *Exec) modelDecode(fr *Frame, st *State, site ssa.Instruction, dec Val, rid int, tag *Term, t types.Type, dest *LVal, depth int, k Kont) {
	pt := types.NewPointer(t)
	_, isIface := t.Underlying().(*types.Interface)
	tagVal := Val{T: types.Typ[types.Int], C: []*Term{tag}}
	el := x.curElem(st, rid)
	curTag := bv64(0)
	if el != nil {
		curTag = el.Tag
	}
	fail := func(s *State) { k(s, s.newErr(), false) }
	scalar := func(kind string, conv func(v Val) Val) {
		if el == nil || el.Kind != kind {
			fail(st)
			return
		}
		e := *el
		fork2(st, Eq(e.Tag, tag), func(s *State) {
			x.advanceCursor(s, rid)
			x.storeDest(fr, s, site, dest, conv(e.V))
			k(s, nilErr(), false)
		}, fail)
	}
	same := func(v Val) Val { return v }
	switch {
	case !isIface && x.implementsIface(t, "TagDecodable"):
		// buildTagDecodableDecodeFunc: a pointer type whose method set has TagDecodeTTLV
		fn := x.methodFn(t, "TagDecodeTTLV")
		if u, isPtr := t.Underlying().(*types.Pointer); isPtr {
			fork2(st, Eq(curTag, tag), func(s *State) {
				cur := x.loadWF(s, dest)
				fork2(s, Eq(cur.C[0], IntConst(0)), func(s2 *State) {
					ref := s2.alloc()
					nlv := objLVal(u.Elem(), ref)
					s2.store(nlv, zeroVal(u.Elem()), "")
					x.dropLastWrites(s2, len(zeroVal(u.Elem()).C))
					p := Val{T: t, C: []*Term{ref}}
					x.storeDest(fr, s2, site, dest, p)
					x.callStatic(fr, s2, site, fn, []Val{p, dec, tagVal}, nil, k)
				}, func(s2 *State) {
					x.callStatic(fr, s2, site, fn, []Val{cur, dec, tagVal}, nil, k)
				})
			}, func(s *State) {
				x.storeDest(fr, s, site, dest, zeroVal(t))
				k(s, nilErr(), false)
			})
			return
		}
		x.callStatic(fr, st, site, fn, []Val{x.loadWF(st, dest), dec, tagVal}, nil, k)
		return
	case !isIface && x.implementsIface(pt, "TagDecodable"):
		x.callStatic(fr, st, site, x.methodFn(pt, "TagDecodeTTLV"), []Val{ptrTo(dest), dec, tagVal}, nil, k)
		return
	case x.isEnumType(t):
		scalar("Enum", same)
		return
	case x.isMaskType(t):
		scalar("Bitmask", same)
		return
	case isNamed(t, "time", "Duration"):
		scalar("Interval", same)
		return
	case isNamed(t, "time", "Time"):
		scalar("DateTime", same)
		return
	case isNamed(t, "math/big", "Int"):
		scalar("BigInteger", func(v Val) Val { return x.loadWF(st, derefPtr(v)) })
		return
	}
	switch u := t.Underlying().(type) {
	case *types.Pointer:
		fork2(st, Eq(curTag, tag), func(s *State) {
			e := x.curElem(s, rid)
			// opaque structure read back by the reflective decoder of the identical type: same value
			if e != nil && e.Kind == "Opaque" && types.Identical(e.T, u.Elem()) {
				x.advanceCursor(s, rid)
				var p Val
				if e.V.LV != nil {
					p = ptrTo(e.V.LV)
					p.T = t
				} else {
					ref := s.alloc()
					nlv := objLVal(u.Elem(), ref)
					s.store(nlv, Val{T: u.Elem(), C: e.V.C}, "")
					x.dropLastWrites(s, len(e.V.C))
					p = Val{T: t, C: []*Term{ref}}
				}
				x.storeDest(fr, s, site, dest, p)
				k(s, nilErr(), false)
				return
			}
			cur := x.loadWF(s, dest)
			fork2(s, Eq(cur.C[0], IntConst(0)), func(s2 *State) {
				ref := s2.alloc()
				nlv := objLVal(u.Elem(), ref)
				s2.store(nlv, zeroVal(u.Elem()), "")
				x.dropLastWrites(s2, len(zeroVal(u.Elem()).C))
				x.storeDest(fr, s2, site, dest, Val{T: t, C: []*Term{ref}})
				x.modelDecode(fr, s2, site, dec, rid, tag, u.Elem(), nlv, depth+1, k)
			}, func(s2 *State) {
				x.modelDecode(fr, s2, site, dec, rid, tag, u.Elem(), derefPtr(cur), depth+1, k)
			})
		}, func(s *State) {
			x.storeDest(fr, s, site, dest, zeroVal(t))
			k(s, nilErr(), false)
		})
	case *types.Basic:
		w, signed, isInt := isIntType(t)
		switch {
		case u.Info()&types.IsString != 0:
			scalar("TextString", same)
		case u.Kind() == types.Bool:
			scalar("Bool", same)
		case isInt && (u.Kind() == types.Int64 || u.Kind() == types.Uint32 || u.Kind() == types.Uint64 || u.Kind() == types.Int):
			scalar("LongInteger", func(v Val) Val {
				c := v.C[0]
				if w < 64 {
					c = Extract(w-1, 0, c)
				}
				return Val{T: t, C: []*Term{c}}
			})
		case isInt:
			_ = signed
			scalar("Integer", func(v Val) Val {
				c := v.C[0]
				if w < 32 {
					c = Extract(w-1, 0, c)
				}
				return Val{T: t, C: []*Term{c}}
			})
		default:
			fail(st)
		}
	case *types.Slice:
		if b, ok := u.Elem().Underlying().(*types.Basic); ok && b.Kind() == types.Uint8 {
			scalar("ByteString", same)
			return
		}
		// `for d.Tag() == tag { decode one element; append }`: a repeated element of the identical slice type
		// is read back as the same slice; no element with this tag leaves the destination untouched
		if el != nil && el.Kind == "Repeated" && types.Identical(el.T, t) {
			e := *el
			fork2(st, Eq(e.Tag, tag), func(s *State) {
				x.advanceCursor(s, rid)
				x.storeDest(fr, s, site, dest, e.V)
				k(s, nilErr(), false)
			}, func(s *State) { k(s, nilErr(), false) })
			return
		}
		fork2(st, Eq(curTag, tag), func(s *State) {
			x.note("reflective decoding of a slice from single elements is outside the element model")
			fail(s)
		}, func(s *State) { k(s, nilErr(), false) })
	case *types.Struct:
		if el != nil && el.Kind == "Opaque" && types.Identical(el.T, t) {
			e := *el
			fork2(st, Eq(e.Tag, tag), func(s *State) {
				x.advanceCursor(s, rid)
				x.storeDest(fr, s, site, dest, Val{T: t, C: e.V.C})
				k(s, nilErr(), false)
			}, fail)
			return
		}
		fail(st)
	case *types.Interface:
		// decodeFunc(Interface): d.decodeValue(tag, value.Elem()) decodes into the value the interface
		// already holds. The element written for an interface-typed value is read back as that value.
		if el != nil && (el.Kind == "Dynamic" || el.Kind == "Opaque") {
			e := *el
			fork2(st, Eq(e.Tag, tag), func(s *State) {
				x.advanceCursor(s, rid)
				if e.Kind == "Dynamic" {
					x.storeDest(fr, s, site, dest, Val{T: t, C: e.V.C})
				} else {
					x.storeDest(fr, s, site, dest, x.makeInterface(s, e.V, e.T, t))
				}
				k(s, nilErr(), false)
			}, fail)
			return
		}
		fail(st)
	default:
		fail(st)
	}
}

// hEncTagAny / hEncAny: Encoder.TagAny and Encoder.Any run for real when the dynamic type of the value is
// known; a value whose dynamic type is symbolic (a payload or object held in an interface-typed field) is
// one "Dynamic" element: assumed none of the basic kinds and encoded by its own (registered) codec.
func (x *Exec) runBody(fr *Frame, st *State, site ssa.Instruction, callee *ssa.Function, args []Val, k Kont) {
	x.inlined[funcName(callee)] = true
	nf := x.newFrame(callee, args, nil, st, fr, site)
	x.execFunc(nf, st, k)
}

func hEncTagAny(x *Exec, fr *Frame, st *State, site ssa.Instruction, callee *ssa.Function, args []Val, k Kont) {
	v := args[2]
	if v.C[0].Op == "intconst" {
		x.runBody(fr, st, site, callee, args, k)
		return
	}
	wid, ok := x.encoderWriterID(st, args[0])
	if !ok {
		x.runBody(fr, st, site, callee, args, k)
		return
	}
	x.assumeNote(reflAssumption)
	fork2(st, Eq(v.C[0], IntConst(0)), func(s *State) { k(s, Val{T: types.NewTuple()}, false) }, func(s *State) {
		s.tapeAppend(wid, TapeElem{Tag: args[1].C[0], Kind: "Dynamic", V: v, T: v.T})
		k(s, Val{T: types.NewTuple()}, false)
	})
}

func hEncAny(x *Exec, fr *Frame, st *State, site ssa.Instruction, callee *ssa.Function, args []Val, k Kont) {
	v := args[1]
	if v.C[0].Op == "intconst" {
		x.runBody(fr, st, site, callee, args, k)
		return
	}
	wid, ok := x.encoderWriterID(st, args[0])
	if !ok {
		x.runBody(fr, st, site, callee, args, k)
		return
	}
	x.assumeNote(reflAssumption)
	fork2(st, Eq(v.C[0], IntConst(0)), func(s *State) { k(s, Val{T: types.NewTuple()}, false) }, func(s *State) {
		s.tapeAppend(wid, TapeElem{Tag: bv64(tagDynamic), Kind: "Dynamic", V: v, T: v.T})
		k(s, Val{T: types.NewTuple()}, false)
	})
}

var tapeHandlers map[string]stdHandler

func init() {
	mod := "github.com/ovh/kmip-go/ttlv"
	tapeHandlers = map[string]stdHandler{
		mod + ".VerifModelEncoder":            hVerifModelEncoder,
		mod + ".VerifModelDecoder":            hVerifModelDecoder,
		mod + ".VerifTapeEnd":                 hVerifTapeEnd,
		"reflect.ValueOf":                     hReflectValueOf,
		"(*" + mod + ".Encoder).encodeValue":  hEncodeValue,
		"(*" + mod + ".Decoder).decodeValue":  hDecodeValue,
		mod + ".getTagForValue":               hGetTagForValue,
		"(*" + mod + ".Encoder).TagAny":       hEncTagAny,
		"(*" + mod + ".Encoder).Any":          hEncAny,
	}
}
