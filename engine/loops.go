package main

// Loop cutting at invariants, with a checked located-frame rule for the heap.

import (
	"fmt"
	"go/token"
	"go/types"
	"sort"
	"strings"

	"golang.org/x/tools/go/ssa"
)

func (x *Exec) loopContract(fr *Frame, h *ssa.BasicBlock) *LoopContract {
	c := x.cs.forFunc(fr.fn)
	if c == nil {
		return nil
	}
	return c.Loops[fr.loops.ordinal[h]]
}

// invEnv builds the name environment for clauses evaluated inside fr (parameters, named phis, debug names).
func (x *Exec) invEnv(fr *Frame) map[string]Val {
	return x.invEnvAt(fr, nil)
}

// invEnvAt: priority (highest first): phis of the given loop header, debug names (latest value of each
// source variable on this path), parameters / captured cells / address-taken locals, other named phis.
func (x *Exec) invEnvAt(fr *Frame, h *ssa.BasicBlock) map[string]Val {
	env := map[string]Val{}
	set := func(name string, v Val) {
		if _, dup := env[name]; !dup {
			env[name] = v
		}
	}
	if h != nil {
		for _, ins := range h.Instrs {
			phi, ok := ins.(*ssa.Phi)
			if !ok {
				break
			}
			if phi.Comment != "" {
				if v, ok := fr.env[phi]; ok {
					set(strings.ReplaceAll(phi.Comment, ".", "_"), v)
				}
			}
		}
	}
	var names []string
	for n := range fr.names {
		names = append(names, n)
	}
	sort.Strings(names)
	for _, n := range names {
		if val, ok := fr.env[fr.names[n]]; ok {
			set(n, val)
		} else if c, ok := fr.names[n].(*ssa.Const); ok {
			set(n, x.constVal(c))
		}
	}
	for i, p := range fr.fn.Params {
		if v, ok := fr.env[p]; ok {
			set(p.Name(), v)
		}
		env[p.Name()+"0"] = fr.params[i]
	}
	for _, f := range fr.fn.FreeVars {
		if v, ok := fr.env[f]; ok {
			set("&"+f.Name(), v)
		}
	}
	// address-taken locals and remaining named phis, in block order for determinism
	for _, b := range fr.fn.Blocks {
		for _, ins := range b.Instrs {
			switch p := ins.(type) {
			case *ssa.Alloc:
				if p.Comment != "" {
					if v, ok := fr.env[p]; ok {
						set("&"+p.Comment, v)
					}
				}
			case *ssa.Phi:
				if p.Comment != "" {
					if v, ok := fr.env[p]; ok {
						set(strings.ReplaceAll(p.Comment, ".", "_"), v)
					}
				}
			}
		}
	}
	return env
}

func decomposeIte(t *Term, out *[]*Term) {
	if t.Op == "ite" {
		decomposeIte(t.Args[1], out)
		decomposeIte(t.Args[2], out)
		return
	}
	*out = append(*out, t)
}

func (x *Exec) loopHeader(fr *Frame, h *ssa.BasicBlock, pred *ssa.BasicBlock, nphi int, phiVals []Val, st *State, k Kont) {
	isBack := h.Dominates(pred)
	lc := x.loopContract(fr, h)
	ord := fr.loops.ordinal[h]
	bindPhis := func(vals []Val) {
		for i := 0; i < nphi; i++ {
			fr.env[h.Instrs[i].(*ssa.Phi)] = vals[i]
		}
	}
	if st.dry != nil {
		if isBack {
			return
		}
		var fresh []Val
		for i := 0; i < nphi; i++ {
			phi := h.Instrs[i].(*ssa.Phi)
			v := freshVal(phi.Type(), "dphi."+phi.Comment)
			x.assumeWF(st, v)
			fresh = append(fresh, v)
		}
		bindPhis(fresh)
		x.execInstrs(fr, h, nphi, st, k)
		return
	}
	bindPhis(phiVals)
	evalInv := func(kind string) bool {
		for _, ai := range x.autoInvariants(fr, h) {
			x.oblige(fr, st, kind, fmt.Sprintf("%s.loop%d", shortFn(fr.fn), ord), h.Instrs[0].Pos(), ai.t, ai.text)
		}
		if lc == nil {
			return true
		}
		ce := &CEnv{x: x, st: st, old: fr.entry, vars: x.invEnvAt(fr, h), pkg: x.cs.pkgOf(fr.fn), fr: fr, entryAllocW: fr.entry.allocW, loopEntry: fr.loopEntry[h]}
		for _, inv := range lc.Invariants {
			t, err := ce.evalBool(inv)
			if err != nil {
				if staleInvariant(err) {
					// an invariant is a proof hint, not part of the specification: one that names a local the
					// code no longer has is dropped (and reported); what it was needed for then fails on its own
					x.note("loop %d of %s: invariant %q dropped (%v)", ord, funcName(fr.fn), inv.Text, err)
					continue
				}
				x.fail("%s loop %d invariant %q: %v", funcName(fr.fn), ord, inv.Text, err)
				return false
			}
			x.oblige(fr, st, kind, fmt.Sprintf("%s.loop%d", shortFn(fr.fn), ord), h.Instrs[0].Pos(), t, inv.Text)
		}
		return true
	}
	if isBack {
		if !evalInv("inv-step") {
			return
		}
		if lc != nil && lc.Decreases != nil {
			ce := &CEnv{x: x, st: st, old: fr.entry, vars: x.invEnvAt(fr, h), pkg: x.cs.pkgOf(fr.fn), fr: fr, entryAllocW: fr.entry.allocW, loopEntry: fr.loopEntry[h]}
			m, err := ce.eval(lc.Decreases.Expr)
			if err != nil {
				x.fail("%s loop %d decreases: %v", funcName(fr.fn), ord, err)
				return
			}
			if old := fr.measures[h]; len(old) == 1 {
				goal := And(BVCmp("bvsle", BVConst(0, old[0].Sort.Width), old[0]), BVCmp("bvslt", m.C[0], old[0]))
				x.oblige(fr, st, "decr", fmt.Sprintf("%s.loop%d", shortFn(fr.fn), ord), h.Instrs[0].Pos(), goal, lc.Decreases.Text)
			}
		}
		// ghost frame of the loop: a ghost variable that the body changes must be declared in `loop k ghostmod`
		// (it is havocked at the head only then); an undeclared change would otherwise be lost at the cut
		for i := len(st.loopFrames) - 1; i >= 0; i-- {
			lf := st.loopFrames[i]
			if lf.header != h || lf.frameID != fr.id || lf.ghostHead == nil {
				continue
			}
			var names []string
			for gname := range lf.ghostHead {
				names = append(names, gname)
			}
			sort.Strings(names)
			for _, gname := range names {
				if lc != nil && lc.GhostModified[gname] {
					continue
				}
				head, cur := lf.ghostHead[gname], st.ghost[gname]
				var eqs []*Term
				for ci := range head.C {
					if ci < len(cur.C) && head.C[ci] != cur.C[ci] {
						eqs = append(eqs, Eq(head.C[ci], cur.C[ci]))
					}
				}
				if len(eqs) > 0 {
					x.oblige(fr, st, "loopframe", fmt.Sprintf("%s.loop%d", shortFn(fr.fn), ord), h.Instrs[0].Pos(), And(eqs...), "ghost "+gname+" unchanged by the loop body")
				}
			}
			break
		}
		x.frameCheckTop(st)
		x.countPath()
		return
	}
	// entry edge
	fr.loopEntry[h] = st.clone()
	if !evalInv("inv-entry") {
		return
	}
	if lc == nil {
		x.note("loop %d of %s has no invariant: state havocked with invariant true", ord, funcName(fr.fn))
	}
	// dry run: which heap maps / references does the body write?
	wm := Watermark()
	dry := &dryInfo{writes: map[string][]*Term{}, all: map[string]bool{}, allocs: map[*Term]bool{}, frameID: fr.id, header: h}
	{
		dst := st.clone()
		dst.dry = dry
		dfr := fr.fork()
		var fresh []Val
		for i := 0; i < nphi; i++ {
			phi := h.Instrs[i].(*ssa.Phi)
			v := freshVal(phi.Type(), "dphi."+phi.Comment)
			x.assumeWF(dst, v)
			fresh = append(fresh, v)
		}
		for i := 0; i < nphi; i++ {
			dfr.env[h.Instrs[i].(*ssa.Phi)] = fresh[i]
		}
		savedPaths := x.paths
		x.execInstrs(dfr, h, nphi, dst, func(*State, Val, bool) {})
		x.paths = savedPaths
		// make sure every map touched in the body exists in the real state
		for name, hm := range dst.heap {
			if _, ok := st.heap[name]; !ok {
				st.heapMap(name, hm.Sort)
			}
		}
	}
	if x.aborted != "" {
		return
	}
	lf := &loopFrame{allocW: st.allocW, located: map[string][]*Term{}, whole: map[string]bool{}, frameID: fr.id, header: h,
		name: fmt.Sprintf("%s.loop%d", shortFn(fr.fn), ord)}
	for key := range dry.all {
		lf.whole[key] = true
	}
	for key, refs := range dry.writes {
		for _, r := range refs {
			var leaves []*Term
			decomposeIte(r, &leaves)
			for _, l := range leaves {
				switch {
				case dry.allocs[l]:
				case l.ID <= wm:
					dup := false
					for _, e := range lf.located[key] {
						if e == l {
							dup = true
						}
					}
					if !dup {
						lf.located[key] = append(lf.located[key], l)
					}
				default:
					lf.whole[key] = true
				}
			}
		}
	}
	fr.loopEntry[h] = st.clone()
	// havoc (allocation watermark first: objects allocated by earlier iterations are live)
	st.havocAlloc()
	var fresh []Val
	for i := 0; i < nphi; i++ {
		phi := h.Instrs[i].(*ssa.Phi)
		v := freshVal(phi.Type(), "phi."+phi.Comment)
		x.assumeWF(st, v)
		fresh = append(fresh, v)
	}
	bindPhis(fresh)
	if lf.whole["*"] {
		for _, key := range st.heapKeys() {
			st.havocMap(key)
		}
		st.mapsDirty = true
	} else {
		for _, key := range st.heapKeys() {
			if lf.whole[key] {
				st.havocMap(key)
				continue
			}
			loc, ok := lf.located[key]
			if !ok {
				// only fresh objects may be written under this key (checked at each store): live memory unchanged
				if _, touched := dry.writes[key]; !touched {
					continue
				}
			}
			hOld := st.heap[key]
			hNew := FreshVar("Hl."+key, hOld.Sort)
			r := BoundVar("r!f", IntSort)
			conds := []*Term{IntCmp(">=", r, lf.allocW)}
			for _, l := range loc {
				conds = append(conds, Not(Eq(r, l)))
			}
			st.assume(Forall([]*Term{r}, Implies(And(conds...), Eq(Select(hNew, r), Select(hOld, r))), []*Term{Select(hNew, r)}))
			st.heap[key] = hNew
		}
	}
	for gname, gv := range st.ghost {
		if lc != nil && lc.GhostModified[gname] {
			nv := freshVal(gv.T, "g."+gname)
			st.ghost[gname] = nv
		}
	}
	lf.ghostHead = make(map[string]Val, len(st.ghost))
	for gname, gv := range st.ghost {
		lf.ghostHead[gname] = gv
	}
	st.loopFrames = append(st.loopFrames, lf)
	for _, ai := range x.autoInvariants(fr, h) {
		st.assume(ai.t)
	}
	if lc != nil {
		ce := &CEnv{x: x, st: st, old: fr.entry, vars: x.invEnvAt(fr, h), pkg: x.cs.pkgOf(fr.fn), fr: fr, entryAllocW: fr.entry.allocW, loopEntry: fr.loopEntry[h]}
		for _, inv := range lc.Invariants {
			t, err := ce.evalBool(inv)
			if err != nil {
				if staleInvariant(err) {
					continue
				}
				x.fail("%s loop %d invariant %q: %v", funcName(fr.fn), ord, inv.Text, err)
				return
			}
			st.assume(t)
		}
		if lc.Decreases != nil {
			m, err := ce.eval(lc.Decreases.Expr)
			if err != nil {
				x.fail("%s loop %d decreases: %v", funcName(fr.fn), ord, err)
				return
			}
			fr.measures[h] = []*Term{m.C[0]}
		}
	}
	x.execInstrs(fr, h, nphi, st, k)
}

func staleInvariant(err error) bool {
	return err != nil && strings.Contains(err.Error(), "unknown identifier")
}

type autoInv struct {
	t    *Term
	text string
}

// autoInvariants: the index of a `for ... := range s` loop over a slice, array or string stays within
// [-1, len(s)): go/ssa compiles the loop to `i = phi(-1, i+1); if i+1 < len(s)` with len(s) evaluated once
// before the loop. The invariant is generated from that shape and checked like a written one (entry and step),
// so that proofs do not depend on the name of the ranged local.
func (x *Exec) autoInvariants(fr *Frame, h *ssa.BasicBlock) []autoInv {
	var out []autoInv
	for _, ins := range h.Instrs {
		phi, ok := ins.(*ssa.Phi)
		if !ok {
			break
		}
		if phi.Comment != "rangeindex" {
			continue
		}
		pv, ok := fr.env[phi]
		if !ok || len(pv.C) != 1 || pv.C[0].Sort != BV64 {
			continue
		}
		// find `inc = phi + 1` and `inc < L` in the header
		for _, r := range *phi.Referrers() {
			inc, ok := r.(*ssa.BinOp)
			if !ok || inc.Op != token.ADD || inc.Block() != h {
				continue
			}
			for _, r2 := range *inc.Referrers() {
				cmp, ok := r2.(*ssa.BinOp)
				if !ok || cmp.Op != token.LSS || cmp.X != inc || cmp.Block() != h {
					continue
				}
				var lv Val
				switch L := cmp.Y.(type) {
				case *ssa.Const:
					lv = x.constVal(L)
				default:
					v, ok := fr.env[L]
					if !ok {
						continue
					}
					lv = v
				}
				if len(lv.C) != 1 || lv.C[0].Sort != BV64 {
					continue
				}
				out = append(out, autoInv{t: And(BVCmp("bvsle", bv64(-1), pv.C[0]), BVCmp("bvslt", pv.C[0], lv.C[0])), text: "auto: range index within [-1, len)"})
			}
		}
	}
	return out
}

func shortFn(fn *ssa.Function) string {
	return fn.Name()
}

// loopFrameCheck: a store inside a loop body must hit a located reference or a fresh object.
func (x *Exec) loopFrameCheck(fr *Frame, st *State, key string, ref *Term, pos token.Pos, exact bool, lv *LVal) {
	if st.dry != nil || len(st.loopFrames) == 0 {
		return
	}
	keys := []string{key}
	if lv != nil {
		keys = nil
		for _, c := range layoutOf(lv.T) {
			keys = append(keys, lv.Prefix+"|"+lv.Path+c.Path)
		}
	}
	for _, lf := range st.loopFrames {
		if lf.whole["*"] {
			continue
		}
		var goals []*Term
		for _, k := range keys {
			if lf.whole[k] {
				continue
			}
			alts := []*Term{IntCmp("<", ref, lf.allocW)}
			for _, l := range lf.located[k] {
				alts = append(alts, Eq(ref, l))
			}
			goals = append(goals, Or(alts...))
		}
		g := And(goals...)
		if g != True {
			x.oblige(fr, st, "loopframe", lf.name, pos, g, key)
			st.assume(g)
		}
	}
}

func (x *Exec) loopFrameAll(fr *Frame, st *State, pos token.Pos) {
	if st.dry != nil {
		return
	}
	for _, lf := range st.loopFrames {
		if !lf.whole["*"] {
			x.oblige(fr, st, "loopframe", lf.name, pos, False, "*")
		}
	}
}

var _ = types.Typ
