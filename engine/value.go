package main

// Symbolic values (type-directed flat component vectors), l-values and the heap/state.

import (
	"fmt"
	"go/types"
	"regexp"
	"sort"
	"strings"
	"sync"

	"golang.org/x/tools/go/ssa"
)

type Comp struct {
	Path string
	Sort *Sort
}

var layoutCache sync.Map

var byteRe = regexp.MustCompile(`\bbyte\b`)
var runeRe = regexp.MustCompile(`\brune\b`)
var typeKeyCache sync.Map

func typeKey(t types.Type) string {
	if v, ok := typeKeyCache.Load(t); ok {
		return v.(string)
	}
	s := types.TypeString(t, func(p *types.Package) string { return p.Name() })
	if strings.Contains(s, "byte") {
		s = byteRe.ReplaceAllString(s, "uint8")
	}
	if strings.Contains(s, "rune") {
		s = runeRe.ReplaceAllString(s, "int32")
	}
	typeKeyCache.Store(t, s)
	return s
}

func intWidth(b *types.Basic) (w int, signed bool, ok bool) {
	switch b.Kind() {
	case types.Int8:
		return 8, true, true
	case types.Int16:
		return 16, true, true
	case types.Int32:
		return 32, true, true
	case types.Int64, types.Int, types.UntypedInt, types.UntypedRune:
		return 64, true, true
	case types.Uint8:
		return 8, false, true
	case types.Uint16:
		return 16, false, true
	case types.Uint32:
		return 32, false, true
	case types.Uint64, types.Uint, types.Uintptr:
		return 64, false, true
	}
	return 0, false, false
}

func isIntType(t types.Type) (w int, signed bool, ok bool) {
	if b, isb := t.Underlying().(*types.Basic); isb {
		return intWidth(b)
	}
	return 0, false, false
}

func layoutOf(t types.Type) []Comp {
	k := typeKey(t)
	if v, ok := layoutCache.Load(k); ok {
		return v.([]Comp)
	}
	r := computeLayout(t, 0)
	layoutCache.Store(k, r)
	return r
}

func computeLayout(t types.Type, depth int) []Comp {
	if depth > 12 {
		return []Comp{{"", IntSort}}
	}
	switch u := t.Underlying().(type) {
	case *types.Basic:
		if u.Kind() == types.Bool || u.Kind() == types.UntypedBool {
			return []Comp{{"", BoolSort}}
		}
		if w, _, ok := intWidth(u); ok {
			return []Comp{{"", BV(w)}}
		}
		switch u.Kind() {
		case types.String, types.UntypedString:
			return []Comp{{".sid", IntSort}}
		case types.Float64, types.Float32, types.UntypedFloat:
			return []Comp{{".f", BV64}}
		case types.UnsafePointer, types.UntypedNil:
			return []Comp{{"", IntSort}}
		}
		return []Comp{{"", IntSort}}
	case *types.Pointer, *types.Map, *types.Chan, *types.Signature:
		return []Comp{{"", IntSort}}
	case *types.Slice:
		return []Comp{{".arr", IntSort}, {".off", BV64}, {".len", BV64}, {".cap", BV64}}
	case *types.Interface:
		return []Comp{{".typ", IntSort}, {".val", IntSort}}
	case *types.Struct:
		var out []Comp
		for i := 0; i < u.NumFields(); i++ {
			f := u.Field(i)
			for _, c := range computeLayout(f.Type(), depth+1) {
				out = append(out, Comp{"." + f.Name() + c.Path, c.Sort})
			}
		}
		if len(out) == 0 {
			out = []Comp{{".empty", BoolSort}}
		}
		return out
	case *types.Array:
		var out []Comp
		for _, c := range computeLayout(u.Elem(), depth+1) {
			out = append(out, Comp{c.Path, ArraySort(BV64, c.Sort)})
		}
		return out
	case *types.Tuple:
		var out []Comp
		for i := 0; i < u.Len(); i++ {
			for _, c := range computeLayout(u.At(i).Type(), depth+1) {
				out = append(out, Comp{fmt.Sprintf("#%d%s", i, c.Path), c.Sort})
			}
		}
		return out
	case *types.TypeParam:
		return []Comp{{"", IntSort}}
	}
	return []Comp{{"", IntSort}}
}

// LVal is a meta-level address: heap map prefix, object reference, optional element index, field path.
type LVal struct {
	Prefix string
	Ref    *Term
	Idx    *Term
	Path   string
	T      types.Type // pointee type
}

type Val struct {
	T  types.Type
	C  []*Term
	LV *LVal  // for pointer values that are interior addresses
	CS *State // contract expressions only: state in which the contents of a slice value are read (old(...))
}

func (v Val) String() string {
	var parts []string
	for _, c := range v.C {
		parts = append(parts, c.String())
	}
	s := typeKey(v.T) + "{" + strings.Join(parts, ", ") + "}"
	if v.LV != nil {
		s += fmt.Sprintf("@%s|%s[%v]", v.LV.Prefix, v.LV.Path, v.LV.Idx)
	}
	return s
}

func zeroOfSort(s *Sort) *Term {
	switch s.Kind {
	case KBool:
		return False
	case KInt:
		return IntConst(0)
	case KBV:
		return BVConst(0, s.Width)
	case KArray:
		return ConstArray(s, zeroOfSort(s.Elem))
	}
	panic("zeroOfSort")
}

func zeroVal(t types.Type) Val {
	l := layoutOf(t)
	v := Val{T: t, C: make([]*Term, len(l))}
	for i, c := range l {
		v.C[i] = zeroOfSort(c.Sort)
	}
	return v
}

func freshVal(t types.Type, prefix string) Val {
	l := layoutOf(t)
	v := Val{T: t, C: make([]*Term, len(l))}
	base := FreshName(prefix)
	for i, c := range l {
		v.C[i] = Var(base+c.Path, c.Sort)
	}
	return v
}

// namedVal creates a value from stable variable names (used for parameters so that models are readable).
func namedVal(t types.Type, name string) Val {
	l := layoutOf(t)
	v := Val{T: t, C: make([]*Term, len(l))}
	for i, c := range l {
		v.C[i] = Var(name+c.Path, c.Sort)
	}
	return v
}

// fieldRange returns the component index range of field i within struct type t.
func fieldRange(st *types.Struct, i int) (lo, hi int) {
	off := 0
	for j := 0; j < st.NumFields(); j++ {
		n := len(layoutOf(st.Field(j).Type()))
		if j == i {
			return off, off + n
		}
		off += n
	}
	panic("fieldRange")
}

func fieldVal(v Val, i int) Val {
	st := v.T.Underlying().(*types.Struct)
	lo, hi := fieldRange(st, i)
	return Val{T: st.Field(i).Type(), C: v.C[lo:hi]}
}

func tupleElem(v Val, i int) Val {
	tp := v.T.(*types.Tuple)
	off := 0
	for j := 0; j < tp.Len(); j++ {
		n := len(layoutOf(tp.At(j).Type()))
		if j == i {
			r := Val{T: tp.At(j).Type(), C: v.C[off : off+n]}
			if j == 0 && v.LV != nil {
				if _, ok := r.T.Underlying().(*types.Pointer); ok {
					r.LV = v.LV // comma-ok type assertion to a pointer type that is an interior address
				}
			}
			return r
		}
		off += n
	}
	panic("tupleElem")
}

func mkTuple(tp *types.Tuple, vs []Val) Val {
	var c []*Term
	for _, v := range vs {
		c = append(c, v.C...)
	}
	return Val{T: tp, C: c}
}

// Slice accessors.
func (v Val) Arr() *Term { return v.C[0] }
func (v Val) Off() *Term { return v.C[1] }
func (v Val) Len() *Term { return v.C[2] }
func (v Val) Cap() *Term { return v.C[3] }

func mkSlice(t types.Type, arr, off, ln, cp *Term) Val {
	return Val{T: t, C: []*Term{arr, off, ln, cp}}
}

func bv64(n int64) *Term { return BVConst(n, 64) }

// ---------------------------------------------------------------------------

type WriteRec struct {
	Key string
	Ref *Term
	Pos string
}

type State struct {
	heap    map[string]*Term
	pc      []*Term
	allocW  *Term // all live references are >= allocW; fresh ones are allocated below
	ghost   map[string]Val
	writes  []WriteRec // stores performed since function entry (for frame checks)
	dry     *dryInfo
	notes   []string
	loopFrames []*loopFrame
	unwinding bool
	mapsDirty bool
	panicPos  string
	panicWhat string
	interior  map[*Term][]*LVal   // meta-level addresses of interior pointers that went through memory or an interface (copy-on-write)
	tapes     map[int][]TapeElem  // element-level codec model (tape.go)
	cursors   map[int]*tapeCursor
}

type dryInfo struct {
	writes  map[string][]*Term
	all     map[string]bool
	allocs  map[*Term]bool
	frameID int
	header  *ssa.BasicBlock
}

type loopFrame struct {
	frameID int
	header  *ssa.BasicBlock
	allocW  *Term
	located map[string][]*Term // key -> refs that may be written (nil entry => whole map)
	whole   map[string]bool
	name    string
	ghostHead map[string]Val // ghost variables at the loop head (after the declared ones were havocked)
}

func newState() *State {
	return &State{heap: map[string]*Term{}, allocW: IntConst(0), ghost: map[string]Val{}}
}

func (s *State) clone() *State {
	n := &State{heap: make(map[string]*Term, len(s.heap)), allocW: s.allocW, ghost: make(map[string]Val, len(s.ghost)), dry: s.dry, unwinding: s.unwinding, mapsDirty: s.mapsDirty, panicPos: s.panicPos, panicWhat: s.panicWhat}
	for k, v := range s.heap {
		n.heap[k] = v
	}
	for k, v := range s.ghost {
		n.ghost[k] = v
	}
	if s.tapes != nil {
		n.tapes = make(map[int][]TapeElem, len(s.tapes))
		for k, v := range s.tapes {
			n.tapes[k] = v
		}
	}
	n.cursors = s.cursors // copy-on-write (setCursor)
	n.interior = s.interior // copy-on-write (addInterior)
	n.pc = append([]*Term(nil), s.pc...)
	n.writes = append([]WriteRec(nil), s.writes...)
	n.notes = append([]string(nil), s.notes...)
	n.loopFrames = append([]*loopFrame(nil), s.loopFrames...)
	return n
}

func (s *State) assume(t *Term) {
	if t == True || t.hasBound {
		// open formulas (mentioning a bound variable of an enclosing quantifier) cannot be assumed
		return
	}
	s.pc = append(s.pc, t)
}

// decided reports whether the path condition contains c (1) or its negation (-1) as a conjunct (hash-consed
// terms: pointer comparison). A cheap syntactic pruning of infeasible branches; 0 when unknown.
func (s *State) decided(c *Term) int {
	nc := Not(c)
	var walk func(t *Term) int
	walk = func(t *Term) int {
		if t == c {
			return 1
		}
		if t == nc {
			return -1
		}
		if t.Op == "and" {
			for _, a := range t.Args {
				if r := walk(a); r != 0 {
					return r
				}
			}
		}
		return 0
	}
	for _, p := range s.pc {
		if r := walk(p); r != 0 {
			return r
		}
	}
	// x == c2 is false when the path condition has x == c1 for another constant c1
	if c.Op == "=" && len(c.Args) == 2 {
		x, k := c.Args[0], c.Args[1]
		if x.IsConst() {
			x, k = k, x
		}
		if k.IsConst() && !x.IsConst() {
			var other func(t *Term) bool
			other = func(t *Term) bool {
				if t.Op == "=" && len(t.Args) == 2 {
					a, b := t.Args[0], t.Args[1]
					if a.IsConst() {
						a, b = b, a
					}
					if a == x && b.IsConst() && b != k {
						return true
					}
				}
				if t.Op == "and" {
					for _, a := range t.Args {
						if other(a) {
							return true
						}
					}
				}
				return false
			}
			for _, p := range s.pc {
				if other(p) {
					return -1
				}
			}
		}
	}
	return 0
}

func (s *State) infeasible() bool {
	for _, p := range s.pc {
		if p == False {
			return true
		}
	}
	return false
}

func (s *State) PC() *Term { return And(s.pc...) }

var heapSorts sync.Map // map name -> *Sort (global, a name always has one sort)

func (s *State) heapMap(name string, sort *Sort) *Term {
	if h, ok := s.heap[name]; ok {
		if h.Sort != sort {
			panic(fmt.Sprintf("heap map %s used at sorts %s and %s", name, h.Sort, sort))
		}
		return h
	}
	h := Var("H0."+name, sort)
	s.heap[name] = h
	return h
}

func (s *State) alloc() *Term {
	var r *Term
	if s.allocW.Op == "intconst" {
		r = IntConst(s.allocW.Val.Int64() - 1)
	} else {
		r = IntBin("-", s.allocW, IntConst(1))
	}
	s.allocW = r
	if s.dry != nil {
		s.dry.allocs[r] = true
	}
	return r
}

// havocAlloc models allocations performed by unknown code.
func (s *State) havocAlloc() {
	w := FreshVar("allocW", IntSort)
	s.assume(IntCmp("<=", w, s.allocW))
	s.allocW = w
}

func (s *State) liveRef(r *Term) *Term { return IntCmp(">=", r, s.allocW) }

func compMapSort(lv *LVal, c Comp) *Sort {
	if lv.Idx != nil {
		return ArraySort(IntSort, ArraySort(BV64, c.Sort))
	}
	return ArraySort(IntSort, c.Sort)
}

func (s *State) load(lv *LVal) Val {
	l := layoutOf(lv.T)
	v := Val{T: lv.T, C: make([]*Term, len(l))}
	for i, c := range l {
		name := lv.Prefix + "|" + lv.Path + c.Path
		h := s.heapMap(name, compMapSort(lv, c))
		t := Select(h, lv.Ref)
		if lv.Idx != nil {
			t = Select(t, lv.Idx)
		}
		v.C[i] = t
	}
	// references read from memory are live
	s.assumeLive(v)
	return v
}

func (s *State) assumeLive(v Val) {
	l := layoutOf(v.T)
	for i, c := range l {
		if c.Sort != IntSort || v.C[i].IsConst() {
			continue
		}
		if strings.HasSuffix(c.Path, ".sid") || strings.HasSuffix(c.Path, ".typ") {
			continue
		}
		if s.allocW.Op == "intconst" && s.allocW.Val.Sign() == 0 && v.C[i].Op == "select" {
			// cheap common case still recorded: refs are >= allocW
		}
		s.assume(s.liveRef(v.C[i]))
	}
}

func (s *State) store(lv *LVal, v Val, pos string) {
	l := layoutOf(lv.T)
	if len(l) != len(v.C) {
		panic(fmt.Sprintf("store layout mismatch %s (%d) vs %s (%d)", typeKey(lv.T), len(l), typeKey(v.T), len(v.C)))
	}
	for i, c := range l {
		name := lv.Prefix + "|" + lv.Path + c.Path
		h := s.heapMap(name, compMapSort(lv, c))
		if lv.Idx != nil {
			inner := Store(Select(h, lv.Ref), lv.Idx, v.C[i])
			s.heap[name] = Store(h, lv.Ref, inner)
		} else {
			s.heap[name] = Store(h, lv.Ref, v.C[i])
		}
		s.recordWrite(name, lv.Ref, pos)
	}
}

func (s *State) recordWrite(name string, ref *Term, pos string) {
	if s.dry != nil {
		s.dry.writes[name] = append(s.dry.writes[name], ref)
		return
	}
	s.writes = append(s.writes, WriteRec{name, ref, pos})
}

func (s *State) havocMap(name string) {
	h, ok := s.heap[name]
	if !ok {
		return
	}
	s.heap[name] = FreshVar("Hh."+name, h.Sort)
	if s.dry != nil {
		s.dry.all[name] = true
	}
}

func (s *State) heapKeys() []string {
	var ks []string
	for k := range s.heap {
		ks = append(ks, k)
	}
	sort.Strings(ks)
	return ks
}

// derefPtr turns a pointer value into an l-value.
func derefPtr(p Val) *LVal {
	if p.LV != nil {
		lv := *p.LV
		return &lv
	}
	pt, ok := p.T.Underlying().(*types.Pointer)
	if !ok {
		panic("derefPtr on non-pointer " + typeKey(p.T))
	}
	return objLVal(pt.Elem(), p.C[0])
}

func objLVal(elem types.Type, ref *Term) *LVal {
	if a, ok := elem.Underlying().(*types.Array); ok {
		return &LVal{Prefix: "[]" + typeKey(a.Elem()), Ref: ref, T: elem}
	}
	switch elem.Underlying().(type) {
	case *types.Struct:
		return &LVal{Prefix: typeKey(elem), Ref: ref, T: elem}
	}
	return &LVal{Prefix: "cell:" + typeKey(elem), Ref: ref, T: elem}
}

func elemLVal(slice Val, idx *Term) *LVal {
	var et types.Type
	switch u := slice.T.Underlying().(type) {
	case *types.Slice:
		et = u.Elem()
	default:
		panic("elemLVal on " + typeKey(slice.T))
	}
	return &LVal{Prefix: "[]" + typeKey(et), Ref: slice.Arr(), Idx: BVBin("bvadd", slice.Off(), idx), T: et}
}

func ptrTo(lv *LVal) Val {
	// plain object pointer when there is no interior path
	if lv.Idx == nil && lv.Path == "" {
		return Val{T: types.NewPointer(lv.T), C: []*Term{lv.Ref}}
	}
	return Val{T: types.NewPointer(lv.T), C: []*Term{lv.Ref}, LV: lv}
}

// ---------------------------------------------------------------------------
// type ids for interface dynamic types

var typeIDs = map[string]int{}
var typeIDRev = map[int]types.Type{}
var typeIDMu sync.Mutex

func typeID(t types.Type) int {
	k := typeKey(t)
	typeIDMu.Lock()
	defer typeIDMu.Unlock()
	if id, ok := typeIDs[k]; ok {
		return id
	}
	id := len(typeIDs) + 1
	typeIDs[k] = id
	typeIDRev[id] = t
	return id
}

func typeByID(id int) types.Type {
	typeIDMu.Lock()
	defer typeIDMu.Unlock()
	return typeIDRev[id]
}

// ---------------------------------------------------------------------------
// strings: abstract ids with slen / sbyte

var strLits = map[string]int{}
var strLitRev = map[int]string{}
var strMu sync.Mutex

func strLitID(s string) int {
	if s == "" {
		return 0
	}
	strMu.Lock()
	defer strMu.Unlock()
	if id, ok := strLits[s]; ok {
		return id
	}
	id := 1000000 + len(strLits)
	strLits[s] = id
	strLitRev[id] = s
	return id
}

func slen(sid *Term) *Term {
	if sid.Op == "intconst" {
		if sid.Val.Sign() == 0 {
			return bv64(0)
		}
		strMu.Lock()
		s, ok := strLitRev[int(sid.Val.Int64())]
		strMu.Unlock()
		if ok {
			return bv64(int64(len(s)))
		}
	}
	return UF("slen", BV64, sid)
}

func sbyte(sid, i *Term) *Term {
	if sid.Op == "intconst" && i.Op == "bvconst" {
		strMu.Lock()
		s, ok := strLitRev[int(sid.Val.Int64())]
		strMu.Unlock()
		if ok && i.Val.IsInt64() && int(i.Val.Int64()) < len(s) {
			return BVConst(int64(s[i.Val.Int64()]), 8)
		}
	}
	return UF("sbyte", BV8, sid, i)
}

func strVal(t types.Type, s string) Val {
	return Val{T: t, C: []*Term{IntConst(int64(strLitID(s)))}}
}
