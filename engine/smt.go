package main

// Solver portfolio: z3-new (5.x), z3 (4.8.12), cvc5. One query per obligation.

import (
	"context"
	"fmt"
	"math/big"
	"os"
	"os/exec"
	"path/filepath"
	"regexp"
	"strings"
	"sync"
	"time"
)

type SolveResult struct {
	Status  string // unsat | sat | unknown | timeout | error
	Solver  string
	Seconds float64
	Output  string
	Values  map[string]string
	Tried   []string
}

type Solver struct {
	Name string
	Cmd  func(file string, timeout int) []string
	Cvc5 bool
}

var solvers = []Solver{
	{Name: "z3-new", Cmd: func(f string, t int) []string { return []string{"z3-new", fmt.Sprintf("-T:%d", t), f} }},
	{Name: "z3", Cmd: func(f string, t int) []string { return []string{"z3", fmt.Sprintf("-T:%d", t), f} }},
	{Name: "cvc5", Cvc5: true, Cmd: func(f string, t int) []string { return []string{"cvc5", fmt.Sprintf("--tlimit=%d", t*1000), f} }},
}

// cvc5 with int-blasting: decides multiplication/division-by-constant facts over 64-bit vectors that
// bit-blasting does not finish (whole-second durations); raced only for queries that contain such operators.
var cvc5Int = Solver{Name: "cvc5-int", Cvc5: true, Cmd: func(f string, t int) []string {
	return []string{"cvc5", "--solve-bv-as-int=sum", fmt.Sprintf("--tlimit=%d", t*1000), f}
}}

func hasHardArith(as []*Term) bool {
	seen := map[*Term]bool{}
	found := false
	var walk func(t *Term)
	walk = func(t *Term) {
		if found || seen[t] {
			return
		}
		seen[t] = true
		switch t.Op {
		case "bvmul", "bvsdiv", "bvsrem", "bvudiv", "bvurem":
			found = true
			return
		}
		for _, a := range t.Args {
			walk(a)
		}
	}
	for _, a := range as {
		walk(a)
	}
	return found
}

var scratchDir string
var scratchOnce sync.Once

func scratch() string {
	scratchOnce.Do(func() {
		base := os.Getenv("GOCV_SCRATCH")
		if base == "" {
			base = "/var/tmp"
		}
		d, err := os.MkdirTemp(base, "gocv-")
		if err != nil {
			panic(err)
		}
		scratchDir = d
	})
	return scratchDir
}

func cleanupScratch() {
	if scratchDir != "" {
		os.RemoveAll(scratchDir)
	}
}

func runSolver(s Solver, script string, tag string, timeout int) SolveResult {
	return runSolverCtx(context.Background(), s, script, tag, timeout)
}

var solverSlots = make(chan struct{}, 14)

func runSolverCtx(parent context.Context, s Solver, script string, tag string, timeout int) SolveResult {
	select {
	case solverSlots <- struct{}{}:
	case <-parent.Done():
		return SolveResult{Status: "cancelled", Solver: s.Name}
	}
	defer func() { <-solverSlots }()
	file := filepath.Join(scratch(), fmt.Sprintf("%s.%s.smt2", tag, s.Name))
	if err := os.WriteFile(file, []byte(script), 0o644); err != nil {
		return SolveResult{Status: "error", Solver: s.Name, Output: err.Error()}
	}
	ctx, cancel := context.WithTimeout(parent, time.Duration(timeout+5)*time.Second)
	defer cancel()
	args := s.Cmd(file, timeout)
	t0 := time.Now()
	cmd := exec.CommandContext(ctx, args[0], args[1:]...)
	out, _ := cmd.CombinedOutput()
	el := time.Since(t0).Seconds()
	text := string(out)
	first := strings.TrimSpace(strings.SplitN(text, "\n", 2)[0])
	st := "unknown"
	switch {
	case first == "unsat":
		st = "unsat"
	case first == "sat":
		st = "sat"
	case parent.Err() != nil:
		st = "cancelled"
	case strings.Contains(first, "timeout") || ctx.Err() != nil:
		st = "timeout"
	case strings.HasPrefix(first, "(error") || strings.Contains(text, "(error"):
		st = "error"
	}
	return SolveResult{Status: st, Solver: s.Name, Seconds: el, Output: text}
}

// literalAxioms adds the facts about string literals (length and bytes) that occur in the assertions.
func literalAxioms(asserts []*Term) []*Term {
	seen := map[*Term]bool{}
	usesSlen := false
	var lits []*Term
	var walk func(t *Term)
	walk = func(t *Term) {
		if seen[t] {
			return
		}
		seen[t] = true
		if t.Op == "uf" && (t.Name == "slen" || t.Name == "sbyte") {
			usesSlen = true
		}
		if t.Op == "intconst" && t.Val.IsInt64() && t.Val.Int64() >= 1000000 && t.Val.Int64() < 2000000 {
			lits = append(lits, t)
		}
		for _, a := range t.Args {
			walk(a)
		}
	}
	for _, a := range asserts {
		walk(a)
	}
	if !usesSlen {
		return nil
	}
	var out []*Term
	for _, l := range lits {
		strMu.Lock()
		s, ok := strLitRev[int(l.Val.Int64())]
		strMu.Unlock()
		if !ok {
			continue
		}
		out = append(out, Eq(UF("slen", BV64, l), bv64(int64(len(s)))))
		if len(s) <= 40 {
			for j := 0; j < len(s); j++ {
				out = append(out, Eq(UF("sbyte", BV8, l, bv64(int64(j))), BVConst(int64(s[j]), 8)))
			}
		}
	}
	out = append(out, Eq(UF("slen", BV64, IntConst(0)), bv64(0)))
	// the empty string is unique
	b := BoundVar("s!e", IntSort)
	out = append(out, Forall([]*Term{b}, Implies(Eq(UF("slen", BV64, b), bv64(0)), Eq(b, IntConst(0))), []*Term{UF("slen", BV64, b)}))
	return out
}

func stripForall(pc *Term) *Term {
	if pc.Op == "forall" {
		return True
	}
	if pc.Op != "and" {
		return pc
	}
	var keep []*Term
	for _, a := range pc.Args {
		if a.Op == "forall" {
			continue
		}
		keep = append(keep, a)
	}
	return And(keep...)
}

// queryLite is the query without the quantified assumptions of the path conditions (a weaker
// assumption set: unsat here implies unsat of the full query).
func (ob *Obligation) queryLite() []*Term {
	var alts []*Term
	changed := false
	for _, c := range ob.Cases {
		pc := stripForall(c.PC)
		if pc != c.PC {
			changed = true
		}
		alts = append(alts, And(pc, Not(c.Goal)))
	}
	if !changed || ob.Cover {
		return nil
	}
	as := []*Term{Or(alts...)}
	as = append(as, namedDefs(as)...)
	as = append(as, literalAxioms(as)...)
	return as
}

// query builds the assertion set of an obligation: OR over cases of (PC and not Goal).
func (ob *Obligation) query() []*Term {
	var alts []*Term
	for _, c := range ob.Cases {
		if ob.Cover {
			alts = append(alts, c.PC)
		} else {
			alts = append(alts, And(c.PC, Not(c.Goal)))
		}
	}
	q := Or(alts...)
	as := []*Term{q}
	as = append(as, namedDefs(as)...)
	as = append(as, literalAxioms(as)...)
	return as
}

type Discharge struct {
	Ob     *Obligation
	Res    SolveResult
	Size   int
	Trivial bool
}

// discharge decides one obligation with the portfolio. values lists terms whose model values are wanted on sat.
func discharge(ob *Obligation, tag string, timeout int, thorough bool, values []*Term) Discharge {
	as := ob.query()
	d := Discharge{Ob: ob, Size: Size(as...)}
	if as[0] == False {
		d.Trivial = true
		d.Res = SolveResult{Status: "unsat", Solver: "simplifier"}
		return d
	}
	if as[0] == True && ob.Cover {
		d.Trivial = true
		d.Res = SolveResult{Status: "sat", Solver: "simplifier"}
		return d
	}
	var tried []string
	if lite := ob.queryLite(); lite != nil {
		t := 2
		if timeout < t {
			t = timeout
		}
		r := runSolver(solvers[0], Script(lite, ScriptOpts{}), tag+".lite", t)
		tried = append(tried, fmt.Sprintf("z3-new(lite):%s:%.2fs", r.Status, r.Seconds))
		if r.Status == "unsat" {
			r.Solver = "z3-new(lite)"
			r.Tried = tried
			d.Res = r
			return d
		}
	}
	perPath := func() (SolveResult, bool) {
		total := 0.0
		for ci, c := range ob.Cases {
			sub := &Obligation{Name: ob.Name, Kind: ob.Kind, Cases: []Case{c}, single: true}
			dd := discharge(sub, fmt.Sprintf("%s.c%d", tag, ci), timeout, false, values)
			total += dd.Res.Seconds
			tried = append(tried, fmt.Sprintf("case%d[%s]", ci, strings.Join(dd.Res.Tried, " ")))
			if dd.Res.Status == "sat" {
				return dd.Res, true
			}
			if dd.Res.Status != "unsat" {
				return dd.Res, false
			}
		}
		return SolveResult{Status: "unsat", Solver: "per-path", Seconds: total}, true
	}
	// few paths: the per-path queries are much smaller than their disjunction, decide them first
	pathFirst := len(ob.Cases) >= 2 && len(ob.Cases) <= 4 && !ob.Cover && !ob.single && !thorough
	if pathFirst {
		if rp, ok := perPath(); ok {
			rp.Tried = tried
			if rp.Status == "sat" {
				rp.Values = parseValues(rp.Output)
			}
			d.Res = rp
			return d
		}
	}
	// multiplication / division by constants that are not powers of two: first try the query with those
	// operators abstracted to uninterpreted functions (sound for unsat: every model of the concrete query is
	// a model of the abstraction), which is what congruence-style arguments need
	if hasHardArith(as) && !ob.Cover {
		abs := abstractArith(as)
		ra, tr := race(abs, tag+".abs", timeout, false, nil, solvers)
		for _, t := range tr {
			tried = append(tried, "abs:"+t)
		}
		if ra.Status == "unsat" {
			ra.Solver = ra.Solver + "(arith-abstracted)"
			ra.Tried = tried
			d.Res = ra
			return d
		}
	}
	racers := solvers
	if hasHardArith(as) {
		racers = append(append([]Solver{}, solvers...), cvc5Int)
	}
	r, tr := race(as, tag, timeout, thorough, values, racers)
	tried = append(tried, tr...)
	// fallback: decide each path of the obligation separately (smaller queries)
	if r.Status != "unsat" && r.Status != "sat" && len(ob.Cases) > 1 && !ob.Cover && !ob.single && !pathFirst {
		if rp, ok := perPath(); ok {
			r = rp
		}
	}
	if ob.Cover && r.Status != "sat" && r.Status != "unsat" {
		// reachability with quantified assumptions is rarely decided; fall back to the quantifier-free part
		var alts []*Term
		for _, c := range ob.Cases {
			alts = append(alts, stripForall(c.PC))
		}
		lite := []*Term{Or(alts...)}
		lite = append(lite, namedDefs(lite)...)
		lite = append(lite, literalAxioms(lite)...)
		r2 := runSolver(solvers[0], Script(lite, ScriptOpts{}), tag+".covlite", 5)
		tried = append(tried, fmt.Sprintf("z3-new(lite-cover):%s:%.2fs", r2.Status, r2.Seconds))
		if r2.Status == "sat" || r2.Status == "unsat" {
			r = r2
			r.Solver = "z3-new(lite-cover)"
		}
	}
	r.Tried = tried
	if r.Status == "sat" {
		r.Values = parseValues(r.Output)
	}
	d.Res = r
	return d
}


// race runs the solvers on one assertion set; the first conclusive answer wins and the others are cancelled
// (in thorough mode all are awaited and must agree).
func race(as []*Term, tag string, timeout int, thorough bool, values []*Term, racers []Solver) (SolveResult, []string) {
	var tried []string
	ctx, cancel := context.WithCancel(context.Background())
	defer cancel()
	ch := make(chan SolveResult, len(racers))
	for _, sv := range racers {
		sv := sv
		go func() {
			script := Script(as, ScriptOpts{Cvc5: sv.Cvc5, GetValues: values})
			ch <- runSolverCtx(ctx, sv, script, tag, timeout)
		}()
	}
	var r SolveResult
	got := map[string]string{}
	for i := 0; i < len(racers); i++ {
		r2 := <-ch
		if r2.Solver == "cvc5-int" && r2.Status == "sat" {
			r2.Status = "unknown" // models of the integer translation are not used
		}
		tried = append(tried, fmt.Sprintf("%s:%s:%.2fs", r2.Solver, r2.Status, r2.Seconds))
		got[r2.Solver] = r2.Status
		conclusive := r2.Status == "unsat" || r2.Status == "sat"
		if conclusive && !(r.Status == "unsat" || r.Status == "sat") {
			r = r2
			if !thorough {
				break
			}
		} else if conclusive && r2.Status != r.Status {
			r = SolveResult{Status: "error", Solver: "portfolio", Output: fmt.Sprintf("solver disagreement: %v", got)}
			break
		} else if conclusive && thorough {
			r.Solver = r.Solver + "+" + r2.Solver
		}
		if r.Status == "" {
			r = r2
		}
	}
	return r, tried
}

// abstractArith replaces products, quotients and remainders whose operands are not both constants and
// where no operand is a power of two by applications of uninterpreted functions.
func abstractArith(as []*Term) []*Term {
	cache := map[*Term]*Term{}
	pow2 := func(t *Term) bool {
		if t.Op != "bvconst" {
			return false
		}
		v := t.Val
		return v.Sign() == 0 || new(big.Int).And(v, new(big.Int).Sub(v, big.NewInt(1))).Sign() == 0
	}
	var rec func(t *Term) *Term
	rec = func(t *Term) *Term {
		if len(t.Args) == 0 {
			return t
		}
		if r, ok := cache[t]; ok {
			return r
		}
		args := make([]*Term, len(t.Args))
		changed := false
		for i, a := range t.Args {
			args[i] = rec(a)
			if args[i] != a {
				changed = true
			}
		}
		var r *Term
		switch t.Op {
		case "bvmul", "bvsdiv", "bvsrem", "bvudiv", "bvurem":
			if !pow2(args[0]) && !pow2(args[1]) {
				a, b := args[0], args[1]
				if t.Op == "bvmul" && a.Op == "bvconst" {
					a, b = b, a
				}
				r = UF("abs!"+t.Op, t.Sort, a, b)
			}
		}
		if r == nil {
			r = t
			if changed {
				r = rebuild(t, args)
			}
		}
		cache[t] = r
		return r
	}
	out := make([]*Term, len(as))
	for i, a := range as {
		out[i] = rec(a)
	}
	// theory lemmas that tie the abstracted operators together where the product cannot overflow:
	// for a of at most 32 bits zero-extended to 64 and a constant 0 < K < 2^31,
	//   (a*K) /s K == a,  (a*K) %s K == 0,  a*K >=s 0.
	// Each instance schema (one per K) is itself checked on the concrete operators before it is used.
	seen := map[*Term]bool{}
	var collect func(t *Term)
	var lemmas []*Term
	collect = func(t *Term) {
		if seen[t] {
			return
		}
		seen[t] = true
		for _, a := range t.Args {
			collect(a)
		}
		if t.Op == "uf" && t.Name == "abs!bvmul" && t.Sort.Width == 64 {
			x, k := t.Args[0], t.Args[1]
			if k.Op == "bvconst" && k.Val.Sign() > 0 && k.Val.BitLen() <= 31 && x.Op == "zero_extend" && x.Args[0].Sort.Width <= 32 && mulDivLemmaOK(k) {
				lemmas = append(lemmas,
					Eq(UF("abs!bvsdiv", t.Sort, t, k), x),
					Eq(UF("abs!bvsrem", t.Sort, t, k), BVConst(0, 64)),
					BVCmp("bvsge", t, BVConst(0, 64)))
			}
		}
	}
	for _, a := range out {
		collect(a)
	}
	return append(out, lemmas...)
}

var mulDivMu sync.Mutex
var mulDivChecked = map[string]bool{}

// mulDivLemmaOK checks the lemma schema used by abstractArith for the constant k on the concrete
// bit-vector operators (cvc5, integer translation).
func mulDivLemmaOK(k *Term) bool {
	key := k.Val.String()
	mulDivMu.Lock()
	defer mulDivMu.Unlock()
	if ok, done := mulDivChecked[key]; done {
		return ok
	}
	a := Var("lemma!a32", BV(32))
	x := ZeroExt(a, 64)
	m := BVBin("bvmul", x, k)
	goal := And(Eq(BVBin("bvsdiv", m, k), x), Eq(BVBin("bvsrem", m, k), BVConst(0, 64)), BVCmp("bvsge", m, BVConst(0, 64)))
	r := runSolver(cvc5Int, Script([]*Term{Not(goal)}, ScriptOpts{Cvc5: true}), "muldiv-lemma-"+key, 20)
	ok := r.Status == "unsat"
	mulDivChecked[key] = ok
	return ok
}

var valueRe = regexp.MustCompile(`\(\s*([^\s()]+|\([^()]*\))\s+(#x[0-9a-fA-F]+|#b[01]+|true|false|-?\d+|\(-\s*\d+\))\s*\)`)

// parseValues reads (get-value ...) output for scalar terms.
func parseValues(out string) map[string]string {
	m := map[string]string{}
	idx := strings.Index(out, "\n")
	if idx < 0 {
		return m
	}
	for _, mm := range valueRe.FindAllStringSubmatch(out[idx:], -1) {
		m[mm[1]] = mm[2]
	}
	return m
}

func smtToBig(v string) (*big.Int, bool) {
	v = strings.TrimSpace(v)
	switch {
	case strings.HasPrefix(v, "#x"):
		return new(big.Int).SetString(v[2:], 16)
	case strings.HasPrefix(v, "#b"):
		return new(big.Int).SetString(v[2:], 2)
	case strings.HasPrefix(v, "(-"):
		x, ok := new(big.Int).SetString(strings.TrimSpace(strings.Trim(v[2:], "() ")), 10)
		if ok {
			x.Neg(x)
		}
		return x, ok
	case v == "true":
		return big.NewInt(1), true
	case v == "false":
		return big.NewInt(0), true
	}
	return new(big.Int).SetString(v, 10)
}
