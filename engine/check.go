package main

// `gocv check <property>`: verify the functions a property depends on, classify every obligation
// (discharged / violation with replay / violation without failing input / undecided / known finding),
// write the evidence file, print the verdict lines.

import (
	"golang.org/x/tools/go/ssa/ssautil"
	"encoding/json"
	"flag"
	"fmt"
	"os"
	"path/filepath"
	"regexp"
	"sort"
	"strconv"
	"strings"
	"sync"
	"time"

	"golang.org/x/tools/go/ssa"
)

type PropFunc struct {
	Pkg   string `json:"pkg"`   // package directory relative to the repository root, e.g. "ttlv" or "."
	Name  string `json:"name"`  // package-relative function name
	Kinds string `json:"kinds"` // optional regexp over obligation kinds counted for this property
}

type PropConfig struct {
	ID         string     `json:"id"`
	Title      string     `json:"title"`
	Functions  []PropFunc `json:"functions"`
	Decided    []string   `json:"clauses_decided"`
	NotDecided []string   `json:"clauses_not_decided"`
	Extra      []string   `json:"extra"` // additional built-in checkers (tables, frames, bounded stand-ins)
	Scenarios  []string   `json:"scenarios"` // input-free replay templates run when contracted functions are unbound or obligations undecided
	Notes      string     `json:"notes"`
}

type KnownFinding struct {
	Property   string `json:"property"`
	Obligation string `json:"obligation"`
	Input      string `json:"input"`
	What       string `json:"what_fails"`
}

type KnownFile struct {
	Findings []KnownFinding `json:"findings"`
	Fixed    []string       `json:"fixed"`
}

func verifDir() string {
	if d := os.Getenv("GOCV_VERIF"); d != "" {
		return d
	}
	return "/verif"
}

// outDir: where evidence and replay files go (overridden by the self-test so that mutant runs do not
// overwrite the evidence of the real tree).
func outDir() string {
	if d := os.Getenv("GOCV_OUT"); d != "" {
		return d
	}
	return verifDir()
}

func loadProps() (map[string]*PropConfig, error) {
	data, err := os.ReadFile(filepath.Join(verifDir(), "props.json"))
	if err != nil {
		return nil, err
	}
	var list []*PropConfig
	if err := json.Unmarshal(data, &list); err != nil {
		return nil, fmt.Errorf("props.json: %v", err)
	}
	m := map[string]*PropConfig{}
	for _, p := range list {
		m[p.ID] = p
	}
	return m, nil
}

func loadKnown() *KnownFile {
	kf := &KnownFile{}
	data, err := os.ReadFile(filepath.Join(verifDir(), "known_findings.json"))
	if err == nil {
		json.Unmarshal(data, kf)
	}
	return kf
}

type Baseline map[string][]string // property -> discharged obligation names

func loadBaseline() Baseline {
	b := Baseline{}
	data, err := os.ReadFile(filepath.Join(verifDir(), "baseline", "obligations.json"))
	if err == nil {
		json.Unmarshal(data, &b)
	}
	return b
}

type obRecord struct {
	Name     string   `json:"name"`
	Kind     string   `json:"kind"`
	Func     string   `json:"function"`
	Pos      string   `json:"pos"`
	Status   string   `json:"status"`
	Solver   string   `json:"solver"`
	Seconds  float64  `json:"seconds"`
	Nodes    int      `json:"smt_nodes"`
	Tried    []string `json:"tried,omitempty"`
	Verdict  string   `json:"verdict"`
}

func cmdCheck(args []string) int {
	fs := flag.NewFlagSet("check", flag.ExitOnError)
	tier := fs.String("tier", "quick", "quick | thorough")
	writeBaseline := fs.Bool("write-baseline", false, "maintenance: record the discharged obligations of this property")
	verbose := fs.Bool("v", false, "verbose")
	var id string
	if len(args) > 0 && !strings.HasPrefix(args[0], "-") {
		id = args[0]
		args = args[1:]
	}
	fs.Parse(args)
	if id == "" && fs.NArg() > 0 {
		id = fs.Arg(0)
	}
	if t := os.Getenv("VERIF_TIER"); t == "thorough" || t == "quick" {
		if !flagSet(fs, "tier") {
			*tier = t
		}
	}
	seed := 0
	if s := os.Getenv("VERIF_SEED"); s != "" {
		seed, _ = strconv.Atoi(s)
	}
	props, err := loadProps()
	if err != nil {
		fmt.Fprintln(os.Stderr, "ENGINE-ERROR", err)
		return 2
	}
	pc, ok := props[id]
	if !ok {
		fmt.Fprintln(os.Stderr, "ENGINE-ERROR unknown property", id)
		return 2
	}
	return runCheck(pc, *tier, seed, *writeBaseline, *verbose)
}

func flagSet(fs *flag.FlagSet, name string) bool {
	set := false
	fs.Visit(func(f *flag.Flag) {
		if f.Name == name {
			set = true
		}
	})
	return set
}

type checkOutcome struct {
	violations []string
	known      []string
	undecided  []string
	unbound    []string
	engineErr  []string
}

func runCheck(pc *PropConfig, tier string, seed int, writeBaseline, verbose bool) int {
	t0 := time.Now()
	timeout := 12
	if tier == "thorough" {
		timeout = 90
	}
	// packages to load
	pkgSet := map[string]bool{}
	for _, f := range pc.Functions {
		pkgSet["./"+strings.TrimPrefix(f.Pkg, "./")] = true
	}
	var patterns []string
	for p := range pkgSet {
		patterns = append(patterns, p)
	}
	sort.Strings(patterns)
	out := &checkOutcome{}
	var records []obRecord
	var assumptions, notes, inlined, funcsUnder, verifiedByInlining []string
	solverSeconds := map[string]float64{}
	solverCounts := map[string]int{}
	obligations, discharged, covers := 0, 0, 0
	known := loadKnown()
	baseline := loadBaseline()
	inBaseline := map[string]bool{}
	for _, n := range baseline[pc.ID] {
		inBaseline[n] = true
	}
	var newBaseline []string
	var samples []any
	replayDir := filepath.Join(outDir(), "replays")
	os.MkdirAll(replayDir, 0o755)

	if len(pc.Extra) > 0 {
		patterns = []string{"./..."}
	}
	var l *Loaded
	if len(patterns) > 0 {
		var err error
		l, err = loadRepo(patterns...)
		if err != nil {
			// a tree that does not build cannot be judged
			fmt.Println("ENGINE-ERROR load:", err)
			return 2
		}
	}
	type job struct {
		pf  PropFunc
		res *FuncResult
	}
	type target struct {
		pf PropFunc
		fn *ssa.Function
	}
	var targets []target
	for _, pf := range pc.Functions {
		pkgPath := modulePathOf(pf.Pkg)
		fns := l.findFuncs(pkgPath, pf.Name)
		if len(fns) == 0 {
			out.unbound = append(out.unbound, pkgPath+"."+pf.Name)
			continue
		}
		for _, fn := range fns {
			targets = append(targets, target{pf, fn})
		}
	}
	// a contract that names no function of its package binds nothing: say so (a renamed callee, or a contract
	// written in the wrong package's file, would otherwise be dropped silently)
	{
		all := map[string]bool{}
		for fn := range ssautil.AllFunctions(l.prog) {
			p, n := relName(fn)
			all[p+"."+n] = true
			if o := fn.Origin(); o != nil {
				po, no := relName(o)
				all[po+"."+no] = true
			}
		}
		var dangling []string
		for key := range l.cs.funcs {
			if !all[key] {
				dangling = append(dangling, key)
			}
		}
		sort.Strings(dangling)
		for _, d := range dangling {
			notes = append(notes, "contract binds to no function of the loaded packages: "+d)
		}
	}
	jobs := make([]*job, len(targets))
	var wg sync.WaitGroup
	sem := make(chan struct{}, 4)
	for i, tg := range targets {
		i, pf, fn := i, tg.pf, tg.fn
		jobs[i] = &job{pf: pf}
		wg.Add(1)
		sem <- struct{}{}
		go func() {
			defer wg.Done()
			defer func() { <-sem }()
			var kre *regexp.Regexp
			if pf.Kinds != "" {
				kre = regexp.MustCompile("^(" + pf.Kinds + "|cover)$")
			}
			jobs[i].res = verifyFunction(l.prog, l.prog.Fset, l.cs, fn, VerifyOpts{Kinds: kre, Timeout: timeout, Thorough: tier == "thorough", Workers: 8, Tag: fmt.Sprintf("%s.%d", pc.ID, i)})
		}()
	}
	wg.Wait()
	for _, j := range jobs {
		if j.res == nil {
			continue
		}
		r := j.res
		funcsUnder = append(funcsUnder, r.Func)
		assumptions = append(assumptions, r.Assumptions...)
		for _, n := range r.Notes {
			notes = append(notes, r.Func+": "+n)
		}
		for _, n := range r.Inlined {
			verifiedByInlining = append(verifiedByInlining, n+" (into "+r.Func+")")
		}
		inlined = append(inlined, r.Inlined...)
		if r.Aborted != "" {
			msg := fmt.Sprintf("%s: %s", r.Func, r.Aborted)
			if strings.HasPrefix(r.Aborted, "engine:") && !funcInBaseline(inBaseline, r.Func) {
				out.engineErr = append(out.engineErr, msg)
			} else {
				// function could not be brought within reach (path cap, ...): every baseline obligation of it is lost
				out.undecided = append(out.undecided, msg)
				for _, n := range sortedKeys(inBaseline) {
					if strings.HasPrefix(n, r.Func+"#") {
						out.violations = append(out.violations, writeNoInput(pc, replayDir, n, r.Func, "the contract no longer applies to the function or the function is out of reach: "+r.Aborted, ""))
						break
					}
				}
			}
			continue
		}
		// the function itself is part of the baseline, so that a function whose obligations all simplify to
		// true on the committed tree (and leave no record) is still protected: an obligation of it that fails
		// later is a regression, not an undecided novelty
		newBaseline = append(newBaseline, r.Func+"#function-under-contract")
		var kindRe *regexp.Regexp
		if j.pf.Kinds != "" {
			kindRe = regexp.MustCompile("^(" + j.pf.Kinds + "|cover)$")
		}
		for _, d := range r.Obligations {
			if kindRe != nil && !kindRe.MatchString(d.Ob.Kind) {
				continue
			}
			rec := obRecord{Name: d.Ob.Name, Kind: d.Ob.Kind, Func: d.Ob.Func, Pos: d.Ob.Pos, Status: d.Res.Status, Solver: d.Res.Solver, Seconds: d.Res.Seconds, Nodes: d.Size, Tried: d.Res.Tried}
			solverSeconds[baseSolver(d.Res.Solver)] += d.Res.Seconds
			if d.Ob.Cover {
				covers++
				if d.Res.Status == "sat" {
					rec.Verdict = "cover-ok"
					if strings.Contains(d.Ob.Name, "#cover:") {
						newBaseline = append(newBaseline, d.Ob.Name)
					}
				} else if d.Res.Status == "unsat" && strings.Contains(d.Ob.Name, "#cover:") && inBaseline[d.Ob.Name] {
					// a "cover e" clause of a contract: on the committed tree some exit satisfied e, now none
					// does, so the conditional post-conditions guarded by e have become vacuous
					rec.Verdict = "violation-no-input"
					out.violations = append(out.violations, writeNoInput(pc, replayDir, d.Ob.Name, d.Ob.Func, "no exit of the function satisfies the covered condition any more (it did on the committed tree)", d.Res.Output))
				} else if d.Res.Status == "unsat" {
					rec.Verdict = "VACUOUS"
					out.engineErr = append(out.engineErr, "vacuous pre-condition: "+d.Ob.Name)
				} else {
					rec.Verdict = "cover-unknown"
				}
				records = append(records, rec)
				continue
			}
			if kf := matchKnown(known, pc.ID, d.Ob.Name); kf != nil && !d.ok() {
				rec.Verdict = "known-finding"
				out.known = append(out.known, fmt.Sprintf("KNOWN-FINDING: property=%s %s %s", pc.ID, d.Ob.Name, kf.What))
				records = append(records, rec)
				continue
			}
			obligations++
			switch {
			case d.ok():
				discharged++
				solverCounts[baseSolver(d.Res.Solver)]++
				rec.Verdict = "discharged"
				newBaseline = append(newBaseline, d.Ob.Name)
			case d.Res.Status == "error":
				rec.Verdict = "engine-error"
				out.engineErr = append(out.engineErr, d.Ob.Name+": "+firstLines(d.Res.Output, 2))
			case d.Res.Status == "sat":
				rp := tryReplay(l, pc, r, d, replayDir)
				switch {
				case rp.reproduced:
					rec.Verdict = "violation-replayed"
					out.violations = append(out.violations, fmt.Sprintf("VIOLATION property=%s replay=%s obligation=%s", pc.ID, rp.file, d.Ob.Name))
				case inBaseline[d.Ob.Name] || funcInBaseline(inBaseline, d.Ob.Func):
					rec.Verdict = "violation-no-input"
					out.violations = append(out.violations, writeNoInput(pc, replayDir, d.Ob.Name, d.Ob.Func, "solver: sat (model not reproduced on the real code: "+rp.why+")", d.Res.Output))
				default:
					rec.Verdict = "undecided"
					out.undecided = append(out.undecided, d.Ob.Name+" (sat, not reproduced: "+rp.why+")")
				}
			default:
				if inBaseline[d.Ob.Name] || funcInBaseline(inBaseline, d.Ob.Func) {
					rec.Verdict = "violation-no-input"
					out.violations = append(out.violations, writeNoInput(pc, replayDir, d.Ob.Name, d.Ob.Func, "solver: "+d.Res.Status+" "+strings.Join(d.Res.Tried, " "), d.Res.Output))
				} else {
					rec.Verdict = "undecided"
					out.undecided = append(out.undecided, d.Ob.Name+" ("+d.Res.Status+")")
				}
			}
			records = append(records, rec)
		}
	}
	// extra built-in checkers
	for _, ex := range pc.Extra {
		er := runExtra(ex, pc, l, tier, seed, replayDir)
		obligations += er.obligations
		discharged += er.discharged
		out.violations = append(out.violations, er.violations...)
		out.known = append(out.known, er.known...)
		out.engineErr = append(out.engineErr, er.errors...)
		assumptions = append(assumptions, er.assumptions...)
		samples = append(samples, er.samples...)
		records = append(records, er.records...)
		for _, n := range er.names {
			newBaseline = append(newBaseline, n)
		}
	}
	// a function under contract is gone (renamed / restructured): its obligations cannot be generated. The
	// property-level scenario replays decide whether the behaviour is still there.
	var standins []map[string]any
	var scenarioErrs []string
	// The witness scenarios are cheap (one go test each) and run in both tiers: they are the bounded stand-ins
	// for the functions outside the verifier's reach (reflection, goroutines) and the replay for obligations
	// whose models are not directly executable. They are recorded separately and never counted as discharged.
	{
		for _, sc := range pc.Scenarios {
			rp, ok := replayers[sc]
			if !ok {
				// a scenario named by the property that does not exist would silently never run
				out.engineErr = append(out.engineErr, "scenario "+sc+" is not registered")
				continue
			}
			if len(rp.Inputs) > 0 {
				continue
			}
			res := runScenario(pc, sc, rp, replayDir)
			if !res.reproduced && res.why != "not-reproduced" {
				// the witness test did not build or did not run: on an unchanged tree that is a broken check
				scenarioErrs = append(scenarioErrs, "scenario "+sc+" did not run: "+res.why)
			}
			standins = append(standins, map[string]any{"scenario": sc, "kind": "bounded stand-in / witness scenario on the real code (never counted as discharged)", "bound": rp.Oracle, "outcome": res.why})
			if res.reproduced {
				out.violations = append(out.violations, fmt.Sprintf("VIOLATION property=%s replay=%s scenario=%s", pc.ID, res.file, sc))
			}
		}
	}
	// samples
	for i, rec := range records {
		if i%maxInt(1, len(records)/6) == 0 && len(samples) < 10 {
			samples = append(samples, map[string]any{"obligation": rec.Name, "kind": rec.Kind, "status": rec.Status, "solver": rec.Solver, "seconds": rec.Seconds, "smt_nodes": rec.Nodes, "verdict": rec.Verdict})
		}
	}
	if writeBaseline {
		baseline[pc.ID] = uniqSorted(newBaseline)
		os.MkdirAll(filepath.Join(verifDir(), "baseline"), 0o755)
		data, _ := json.MarshalIndent(baseline, "", " ")
		os.WriteFile(filepath.Join(verifDir(), "baseline", "obligations.json"), data, 0o644)
	}
	// vacuity: the number of obligations must not shrink below the baseline
	if !writeBaseline && len(inBaseline) > 0 {
		present := map[string]bool{}
		for _, rec := range records {
			present[rec.Name] = true
		}
		for n := range inBaseline {
			if !present[n] && !obligationFuncMissing(n, out) {
				// the obligation disappeared although its function is still there: renamed or no longer generated
				notes = append(notes, "baseline obligation not generated on this tree: "+n)
			}
		}
	}
	wall := time.Since(t0).Seconds()
	ev := map[string]any{
		"property_id": pc.ID,
		"tier":        tier,
		"seed":        seed,
		"level":       "proof",
		"wall_s":      wall,
		"violations":  len(out.violations),
		"assumptions": uniqSorted(assumptions),
		"coverage": map[string]any{
			"obligations":             obligations,
			"discharged":              discharged,
			"checker_cmd":             fmt.Sprintf("./bin/gocv check %s --tier %s  (VCs over go/ssa of /repo's working tree, tag verif; solvers z3-new 5.1.0, z3 4.8.12, cvc5 1.0.3 raced)", pc.ID, tier),
			"trusted_base":            trustedBase(),
			"functions_under_contract": uniqSorted(funcsUnder),
			"verified_by_inlining":    uniqSorted(verifiedByInlining),
			"covers_sat":              covers,
			"discharged_by_backend":   solverCounts,
			"solver_seconds":          solverSeconds,
			"clauses_decided":         pc.Decided,
			"clauses_not_decided":     pc.NotDecided,
			"known_findings_hit":      out.known,
			"bounded_standins":        standins,
			"undecided":               out.undecided,
			"unbound":                 out.unbound,
			"engine_notes":            uniqSorted(notes),
			"samples":                 samples,
			"obligation_records":      records,
			"explanation":             pc.Notes,
		},
	}
	os.MkdirAll(filepath.Join(outDir(), "evidence"), 0o755)
	data, _ := json.MarshalIndent(ev, "", " ")
	os.WriteFile(filepath.Join(outDir(), "evidence", pc.ID+".json"), data, 0o644)

	for _, k := range out.known {
		fmt.Println(k)
	}
	for _, u := range out.undecided {
		fmt.Println("UNDECIDED", u)
	}
	for _, u := range out.unbound {
		fmt.Println("UNBOUND", u)
	}
	if verbose {
		for _, rec := range records {
			fmt.Printf("  %-22s %-8s %6.2fs %s\n", rec.Verdict, rec.Status, rec.Seconds, rec.Name)
		}
	}
	fmt.Printf("%s: %d/%d obligations discharged, %d functions, %.1fs\n", pc.ID, discharged, obligations, len(funcsUnder), wall)
	if len(out.violations) == 0 {
		// a scenario that cannot run is an engine error unless the tree is already reported as violating
		// (a change of signature breaks both the contract and the witness test that calls the function)
		out.engineErr = append(out.engineErr, scenarioErrs...)
	}
	if len(out.engineErr) > 0 {
		for _, e := range out.engineErr {
			fmt.Println("ENGINE-ERROR", e)
		}
		return 2
	}
	if len(out.violations) > 0 {
		for _, v := range uniqSorted(out.violations) {
			fmt.Println(v)
		}
		return 1
	}
	return 0
}

func sortedKeys(m map[string]bool) []string {
	var ks []string
	for k := range m {
		ks = append(ks, k)
	}
	sort.Strings(ks)
	return ks
}

func maxInt(a, b int) int {
	if a > b {
		return a
	}
	return b
}

func lastName(s string) string {
	if i := strings.LastIndex(s, "/"); i >= 0 {
		s = s[i+1:]
	}
	return s
}

func obligationFuncMissing(n string, out *checkOutcome) bool {
	for _, u := range out.unbound {
		if strings.Contains(n, lastName(u)+"#") {
			return true
		}
	}
	return false
}

func funcInBaseline(inBaseline map[string]bool, fn string) bool {
	for n := range inBaseline {
		if strings.HasPrefix(n, fn+"#") {
			return true
		}
	}
	return false
}

func baseSolver(s string) string {
	if s == "" {
		return "none"
	}
	return s
}

func modulePathOf(dir string) string {
	dir = strings.TrimPrefix(dir, "./")
	if dir == "" || dir == "." {
		return "github.com/ovh/kmip-go"
	}
	return "github.com/ovh/kmip-go/" + dir
}

func matchKnown(k *KnownFile, prop, name string) *KnownFinding {
	for i := range k.Findings {
		if k.Findings[i].Property == prop && k.Findings[i].Obligation == name {
			return &k.Findings[i]
		}
	}
	return nil
}

func uniqSorted(in []string) []string {
	m := map[string]bool{}
	for _, s := range in {
		m[s] = true
	}
	out := make([]string, 0, len(m))
	for s := range m {
		out = append(out, s)
	}
	sort.Strings(out)
	return out
}

func trustedBase() []string {
	return []string{
		"go/packages + go/ssa (golang.org/x/tools v0.29.0) translate /repo's source faithfully",
		"gocv's SSA semantics (DESIGN.md section 2.2, appendix B): 64-bit machine integers as bit-vectors, Burstall-Bornat heap, append with in-place growth",
		"z3 5.1.0 / z3 4.8.12 / cvc5 1.0.3 are sound",
		"amd64: int is 64 bits; no slice spans more than 2^40 elements",
		"assumed contracts of standard-library functions (listed under assumptions)",
	}
}

// writeNoInput records a violation for which no failing input could be produced.
func writeNoInput(pc *PropConfig, dir, obligation, fn, reason, solverOut string) string {
	file := filepath.Join(dir, fmt.Sprintf("%s-%s.json", pc.ID, sanitize(obligation)))
	if len(file) > 200 {
		file = file[:200] + ".json"
	}
	doc := map[string]any{"property": pc.ID, "obligation": obligation, "function": fn, "outcome": "no-failing-input-found", "reason": reason, "solver_output": truncate(solverOut, 4000)}
	data, _ := json.MarshalIndent(doc, "", " ")
	os.WriteFile(file, data, 0o644)
	return fmt.Sprintf("VIOLATION property=%s replay=%s obligation=%s no-failing-input-found", pc.ID, file, obligation)
}

func truncate(s string, n int) string {
	if len(s) > n {
		return s[:n] + "..."
	}
	return s
}

type extraResult struct {
	obligations, discharged int
	violations, known, errors, assumptions, names []string
	samples []any
	records []obRecord
}

var extraCheckers = map[string]func(pc *PropConfig, l *Loaded, tier string, seed int, replayDir string) extraResult{}

func runExtra(name string, pc *PropConfig, l *Loaded, tier string, seed int, replayDir string) extraResult {
	if f, ok := extraCheckers[name]; ok {
		return f(pc, l, tier, seed, replayDir)
	}
	return extraResult{errors: []string{"unknown extra checker " + name}}
}
