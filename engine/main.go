package main

import (
	"flag"
	"fmt"
	"os"
	"regexp"
	"sort"
	"strings"

	"golang.org/x/tools/go/packages"
	"golang.org/x/tools/go/ssa"
	"golang.org/x/tools/go/ssa/ssautil"
)

type Loaded struct {
	pkgs  []*packages.Package
	prog  *ssa.Program
	spkgs []*ssa.Package
	cs    *ContractSet
}

func repoDir() string {
	if d := os.Getenv("GOCV_REPO"); d != "" {
		return d
	}
	return "/repo"
}

var currentLoaded *Loaded

func loadRepo(patterns ...string) (*Loaded, error) {
	cfg := &packages.Config{Mode: packages.LoadAllSyntax, Dir: repoDir(), BuildFlags: []string{"-tags=verif"},
		Env: append(os.Environ(), "GOFLAGS=-mod=mod", "GOPROXY=off")}
	pkgs, err := packages.Load(cfg, patterns...)
	if err != nil {
		return nil, err
	}
	var errs []string
	packages.Visit(pkgs, nil, func(p *packages.Package) {
		for _, e := range p.Errors {
			errs = append(errs, e.Error())
		}
	})
	if len(errs) > 0 {
		return nil, fmt.Errorf("load errors:\n%s", strings.Join(errs, "\n"))
	}
	prog, spkgs := ssautil.AllPackages(pkgs, ssa.InstantiateGenerics|ssa.GlobalDebug)
	prog.Build()
	cs := newContractSet()
	if err := cs.load(pkgs); err != nil {
		return nil, err
	}
	currentLoaded = &Loaded{pkgs: pkgs, prog: prog, spkgs: spkgs, cs: cs}
	return currentLoaded, nil
}

// findFunc resolves "pkgpath.Name", "pkgpath.(*T).M", with optional $n closure suffixes.
func (l *Loaded) findFunc(pkgPath, name string) *ssa.Function {
	var found *ssa.Function
	for fn := range ssautil.AllFunctions(l.prog) {
		p, n := relName(fn)
		if p == pkgPath && n == name {
			if found == nil || fn.Synthetic == "" {
				found = fn
			}
		}
	}
	return found
}

// findFuncs resolves a name that may contain '*' wildcards to all matching functions (sorted by name).
func (l *Loaded) findFuncs(pkgPath, pattern string) []*ssa.Function {
	if !strings.Contains(pattern, "*") || strings.HasPrefix(pattern, "(*") && strings.Count(pattern, "*") == 1 {
		if fn := l.findFunc(pkgPath, pattern); fn != nil {
			return []*ssa.Function{fn}
		}
		return nil
	}
	re := regexp.MustCompile("^" + strings.ReplaceAll(regexp.QuoteMeta(pattern), `\*\*`, ".*") + "$")
	var out []*ssa.Function
	seen := map[string]bool{}
	for fn := range ssautil.AllFunctions(l.prog) {
		p, n := relName(fn)
		if p == pkgPath && re.MatchString(n) && !seen[n] && fn.Synthetic == "" || p == pkgPath && re.MatchString(n) && !seen[n] && strings.Contains(fn.Synthetic, "instance") {
			seen[n] = true
			out = append(out, fn)
		}
	}
	sort.Slice(out, func(i, j int) bool { return out[i].String() < out[j].String() })
	return out
}

func main() {
	if len(os.Args) < 2 {
		fmt.Fprintln(os.Stderr, "usage: gocv check <property> [--tier quick|thorough] | verify <pkg> <func>... | replay <file> | selftest | baseline")
		os.Exit(2)
	}
	defer cleanupScratch()
	switch os.Args[1] {
	case "verify":
		os.Exit(cmdVerify(os.Args[2:]))
	case "check":
		os.Exit(cmdCheck(os.Args[2:]))
	case "replay":
		os.Exit(cmdReplay(os.Args[2:]))
	case "tables":
		os.Exit(cmdTables(os.Args[2:]))
	case "sweep":
		os.Exit(cmdSweep(os.Args[2:]))
	case "list":
		l, err := loadRepo(os.Args[2])
		if err != nil {
			fmt.Fprintln(os.Stderr, err)
			os.Exit(2)
		}
		var names []string
		for fn := range ssautil.AllFunctions(l.prog) {
			p, n := relName(fn)
			if p == l.pkgs[0].PkgPath && (len(os.Args) < 4 || strings.Contains(n, os.Args[3])) {
				names = append(names, n)
			}
		}
		sort.Strings(names)
		fmt.Println(strings.Join(names, "\n"))
	default:
		fmt.Fprintln(os.Stderr, "unknown command", os.Args[1])
		os.Exit(2)
	}
}

func cmdVerify(args []string) int {
	fs := flag.NewFlagSet("verify", flag.ExitOnError)
	timeout := fs.Int("timeout", 10, "solver timeout (s)")
	verbose := fs.Bool("v", false, "print every obligation")
	dump := fs.String("dump", "", "dump the query of the obligation with this name substring")
	dbg := fs.Bool("debug", false, "do not recover engine panics")
	fs.Parse(args)
	debugPanics = *dbg
	rest := fs.Args()
	if len(rest) < 2 {
		fmt.Fprintln(os.Stderr, "verify <pkg pattern> <func>...")
		return 2
	}
	l, err := loadRepo(rest[0])
	if err != nil {
		fmt.Fprintln(os.Stderr, err)
		return 2
	}
	pkgPath := l.pkgs[0].PkgPath
	rc := 0
	for _, name := range rest[1:] {
		fn := l.findFunc(pkgPath, name)
		if fn == nil {
			fmt.Printf("UNBOUND %s.%s\n", pkgPath, name)
			rc = 1
			continue
		}
		r := verifyFunction(l.prog, l.prog.Fset, l.cs, fn, VerifyOpts{Timeout: *timeout, Workers: 16, Tag: sanitize(name)})
		printFuncResult(r, *verbose, *dump)
		if r.Aborted != "" {
			rc = 1
		}
		for _, d := range r.Obligations {
			if !d.ok() {
				rc = 1
			}
		}
	}
	return rc
}

func (d Discharge) ok() bool {
	if d.Ob.Cover {
		return d.Res.Status == "sat"
	}
	return d.Res.Status == "unsat"
}

func printFuncResult(r *FuncResult, verbose bool, dump string) {
	okc := 0
	for _, d := range r.Obligations {
		if d.ok() {
			okc++
		}
	}
	fmt.Printf("== %s: %d/%d obligations discharged, %d paths, gen %.2fs %s\n", r.Func, okc, len(r.Obligations), r.Paths, r.GenSeconds, r.Aborted)
	for _, d := range r.Obligations {
		if verbose || !d.ok() || d.Res.Seconds > 2 {
			fmt.Printf("   [%s] %-7s %s  (%s, %d nodes, %s) %s\n", map[bool]string{true: "ok", false: "FAIL"}[d.ok()], d.Res.Status, d.Ob.Name, d.Ob.Pos, d.Size, strings.Join(d.Res.Tried, " "), d.Ob.Text)
			if !d.ok() && d.Res.Status == "sat" && len(d.Res.Values) > 0 {
				var ks []string
				for k := range d.Res.Values {
					ks = append(ks, k)
				}
				sort.Strings(ks)
				var parts []string
				for _, k := range ks {
					parts = append(parts, k+"="+d.Res.Values[k])
				}
				fmt.Printf("        model: %s\n", strings.Join(parts, " "))
			}
			if !d.ok() && d.Res.Status == "error" {
				fmt.Printf("        %s\n", firstLines(d.Res.Output, 3))
			}
		}
		if dump != "" && strings.Contains(d.Ob.Name, dump) {
			if os.Getenv("GOCV_DUMP_LITE") != "" {
				fmt.Println(Script(d.Ob.queryLite(), ScriptOpts{}))
			} else {
				fmt.Println(Script(d.Ob.query(), ScriptOpts{}))
			}
		}
	}
	for _, n := range r.Notes {
		fmt.Println("   note:", n)
	}
	if verbose {
		for _, n := range r.Assumptions {
			fmt.Println("   assume:", n)
		}
		fmt.Println("   inlined:", strings.Join(r.Inlined, ", "))
	}
}

func firstLines(s string, n int) string {
	l := strings.Split(s, "\n")
	if len(l) > n {
		l = l[:n]
	}
	return strings.Join(l, " | ")
}



// cmdSweep: zero-annotation safety sweep. Every function of a package is executed symbolically with
// unconstrained inputs and only obligations of the selected kinds are discharged; whatever is not discharged
// is listed. A triage aid (most reports need a pre-condition, some are defects), not a check.
func cmdSweep(args []string) int {
	fs := flag.NewFlagSet("sweep", flag.ExitOnError)
	kinds := fs.String("kinds", "assert", "obligation kinds (regexp)")
	timeout := fs.Int("timeout", 5, "solver timeout (s)")
	fs.Parse(args)
	rest := fs.Args()
	if len(rest) < 1 {
		fmt.Fprintln(os.Stderr, "sweep [-kinds re] <pkg pattern> [name substring]")
		return 2
	}
	l, err := loadRepo(rest[0])
	if err != nil {
		fmt.Fprintln(os.Stderr, err)
		return 2
	}
	kre := regexp.MustCompile("^(" + *kinds + ")$")
	var fns []*ssa.Function
	for fn := range ssautil.AllFunctions(l.prog) {
		p, n := relName(fn)
		if p != l.pkgs[0].PkgPath || len(fn.Blocks) == 0 || strings.HasPrefix(n, "lemma") || strings.HasPrefix(n, "init") || strings.HasPrefix(n, "cut") {
			continue
		}
		if len(rest) > 1 && !strings.Contains(n, rest[1]) {
			continue
		}
		if fn.Synthetic != "" {
			continue
		}
		fns = append(fns, fn)
	}
	sort.Slice(fns, func(i, j int) bool { return fns[i].String() < fns[j].String() })
	for _, fn := range fns {
		r := verifyFunction(l.prog, l.prog.Fset, l.cs, fn, VerifyOpts{Kinds: kre, Timeout: *timeout, Workers: 16, Tag: "sweep"})
		for _, d := range r.Obligations {
			if d.Ob.Cover || !kre.MatchString(d.Ob.Kind) || d.ok() {
				continue
			}
			fmt.Printf("%-8s %s  (%s)\n", d.Res.Status, d.Ob.Name, d.Ob.Pos)
		}
		if r.Aborted != "" {
			fmt.Printf("aborted  %s: %s\n", r.Func, r.Aborted)
		}
	}
	return 0
}
